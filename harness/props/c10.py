"""
C10 — Cancelling or timing out a receive never loses data.

real run : (layer "proto") the real StreamReaderBufferedProtocol driven through its asyncio.BufferedProtocol callbacks by the
           harness (which plays the transport) on a deterministic loop: receive_data / receive_data_into tasks, data arrival,
           task.cancel() and task wake-ups in every relative order, then receives until nothing is left;
           (layer "e2e") AsyncStreamEndpoint.recv_packet (both receive paths) over the real asyncio socket transport on a
           socketpair, a timeout scope or task.cancel() forced into the same loop iteration as the read event.
model run: the same event list through the Lean protocol + task model (endriver `rp`); layer e2e has no model run.
oracle   : bytes / packets returned by all receives == bytes / packets the peer wrote (nothing lost, duplicated, reordered).
round 5  : (layer "e2e", kinds "citer" / "srvfull", vlib/c10_iter.py) the receive entry points ABOVE the endpoint —
           AsyncTCPNetworkClient / AsyncUDPNetworkClient recv_packet() and iter_received_packets() (anext on one kept iterator,
           async for, fresh iterator per packet), the datagram endpoint, the request receivers, the whole server chain with a
           handler that yields time-outs — cancelled by task.cancel() / an enclosing move_on_after / asyncio.timeout right after
           EVERY step of the consuming task (step-counting task), or by enclosing deadlines equal to the arrival times; in-memory
           transport, virtual time; oracle: packets handed out + packets of the later receives == packets sent.
"""
from __future__ import annotations

from typing import Any

from vlib import c10_bulk as cbulk
from vlib import c10_drive as drv
from vlib import c10_iter as citer
from vlib import core

ID = "C10"
CLAIMED = True
TITLE = "Cancelling or timing out a receive never loses data"
REQUIRED_THEOREMS = ["C10_conservation", "C10_quiescent_all_parked", "C10_later_receive_delivers_rest",
                     "C10_cancelled_receive_returns_nothing", "C10_layer_feeds_what_it_takes", "C10_tls_reader"]
LEVEL_TEXT = (
    "Machine-checked proof (Lean 4) that in the model of StreamReaderBufferedProtocol + asyncio task semantics, for every "
    "sequence of receive starts, data arrivals, end-of-stream, cancellations and loop turns, the bytes returned so far "
    "followed by the bytes parked in the protocol equal the bytes the transport delivered; plus differential "
    "correspondence of that model against the real protocol on generated event lists, plus a direct byte-conservation "
    "oracle at protocol level and a packet-conservation oracle end-to-end over a real socket transport."
)
LEVEL_NOTE = (
    "Trusted: Lean kernel; axioms propext, Quot.sound, Classical.choice only. The hand model (EasyNet/Model/RecvProto.lean) "
    "and the asyncio task/future semantics it encodes are tied to the code by the sampled correspondence check. The theorems "
    "are about the protocol variant with the get_buffer guard and the salvage on cancelled wake-up (docs/C10-fix-1.patch); "
    "the check probes which variant it runs against and the oracle fails on the unguarded one. Upper layers (endpoint, "
    "server receiver, TLS reader, blocking endpoint) are covered by structural models (C10_layer_feeds_what_it_takes, "
    "C10_tls_reader; the TLS one assumes docs/C10-fix-2.patch) and by the end-to-end oracle over real sockets and real "
    "OpenSSL, not by a model-vs-code diff."
)
TECHNIQUE = ("Lean 4 theorems (inductive invariant over the protocol/task step machine) + model/code differential "
             "correspondence + conservation oracle on the real code")
TRUSTED_BASE = [
    "Lean 4.33.0 kernel; axioms allowed: propext, Classical.choice, Quot.sound",
    "hand-written model EasyNet/Model/RecvProto.lean of lowlevel/api_async/backend/_asyncio/stream/socket.py "
    "(StreamReaderBufferedProtocol) and of CPython 3.12 asyncio Task.cancel/__step/__wakeup + Future, tied by this check (sampled)",
    "harness: deterministic loop (one _run_once per turn, virtual clock), stub transport, canonicaliser, endriver line parser",
    "selector ordering inside one loop iteration (ready handles, then I/O, then timers) is CPython's, exercised not modelled",
]
ASSUMPTIONS = [
    "one reader task at a time (the endpoint's receive guard enforces it); a second start while one is alive is `busy`",
    "connection_lost discards buffered data by design: conservation is stated for event lists without connection loss, "
    "after a loss the oracle demands a prefix",
    "theorems apply to the guarded+salvaging variant of the protocol (see docs/C10.md)",
]
RULE = (
    "proto case = list of events recv/into/io/eof/lost/cancel/turn (<= 16) + finishing turns and draining receives; "
    "non-trivial = a cancel issued while a receive is alive, classed by what shares its loop iteration "
    "(cancel-then-io, io-then-cancel, cancel alone, cancel before first step) and by receive kind; "
    "e2e case = receive path x ops (recvpkt with timeout / peer write / cancel / tick / turn); "
    "citer case = receive stack (TCP / UDP client, endpoints, request receiver) x entry point (recv_packet, iterator anext / async for) "
    "x arrival times of the stream x cancellation source, swept over every step of the consuming task; srvfull = server chain with a "
    "handler yielding time-outs; non-trivial = at least one cancellation was delivered inside the receive; distinct by case digest"
)

_aux: dict[str, Any] = {}


# ----------------------------------------------------------------------------------------------
def run_real(case: dict) -> list[str]:
    if case.get("layer", "proto") == "e2e":
        return _run_e2e(case)
    r = drv.ProtoRun(case.get("max_size"))
    try:
        for ev in case["events"]:
            r.event(ev)
        r.finish()
        lines = list(r.lines)
        lines.append(f"arrived {drv.hx(bytes(r.arrived))}")
        lines.append(f"delivered {drv.hx(bytes(r.delivered))}")
        lines.append(r.account())
        if r.stalled:
            lines.append("stalled")
        if r.loop.unhandled:
            lines.append("unhandled " + "|".join(r.loop.unhandled))
        _aux[core.case_digest(case)] = {"executed": list(r.executed), "lost": r.lost}
        return lines
    finally:
        r.close()


_ITER_KINDS = ("citer", "srvfull")


def _run_e2e(case: dict) -> list[str]:
    if case.get("kind") in _ITER_KINDS:
        return citer.run(case)
    if case.get("kind") == "bulk":
        return cbulk.run(case)
    if case.get("kind") == "tls":
        r = drv.TLSRun()
    elif case.get("kind") == "sync":
        r = drv.SyncRun(case["path"], case.get("max_recv_size", 8))
    else:
        r = drv.E2ERun(case["path"], case.get("max_recv_size", 8), case.get("kind", "endpoint"))
    try:
        for op in case["ops"]:
            r.op(op)
        expected = bytes(r.written).count(b"\n")
        r.finish(expected)
        lines = list(r.lines)
        lines.append(f"written {core.hexs(bytes(r.written))}")
        if case.get("kind") == "tls":
            lines.append(f"received {core.hexs(bytes(r.received))}")
        else:
            lines.append("packets " + ",".join(core.hexs(p.encode()) for p in r.packets))
        if getattr(r, "loop", None) is not None and r.loop.unhandled:
            lines.append("unhandled " + "|".join(r.loop.unhandled))
        return lines
    finally:
        r.close()


def _ev_line(ev: list) -> str:
    return " ".join(str(x) for x in ev)


def model_input(case: dict, real: list[str]):
    if case.get("layer", "proto") == "e2e":
        return None
    aux = _aux.get(core.case_digest(case))
    if aux is None:
        return None
    g, s = drv.probe_variant()
    max_size = case.get("max_size") or drv.real_max_size()
    if sum(len(ev[1]) for ev in aux["executed"] if ev[0] == "io") > 2 * _MODEL_BYTES:
        return None     # (real-size buffers: oracle only)
    return f"rp {max_size} {g} {s}", [_ev_line(ev) for ev in aux["executed"]]


_MODEL_BYTES = 40000


def model_post(case: dict, lines: list[str]) -> list[str]:
    return [drv.compact_line(ln) for ln in lines]


def real_for_diff(case: dict, real: list[str]) -> list[str]:
    return [ln for ln in real if not ln.startswith(("unhandled", "check ", "stalled"))]


def oracle(case: dict, real: list[str]) -> str | None:
    if case.get("kind") == "bulk":
        return cbulk.oracle(case, real)
    for ln in real:
        if ln.startswith("harness-exc") or ln.startswith("unhandled"):
            return ln
    if case.get("kind") in _ITER_KINDS:
        return citer.oracle(case, real)
    if case.get("layer", "proto") == "e2e":
        written = next((ln.split()[1] for ln in real if ln.startswith("written ")), "-")
        if case.get("kind") == "tls":
            received = next((ln.split()[1] for ln in real if ln.startswith("received ")), "-")
            if received != written:
                errs = sorted({ln for ln in real if ln.startswith("err ")})
                return f"plaintext received {received} != plaintext written {written}" + (f" ({', '.join(errs)})" if errs else "")
            return None
        got = next((ln[len("packets "):] for ln in real if ln.startswith("packets ")), "")
        data = b"" if written == "-" else bytes.fromhex(written)
        exp = [core.hexs(p) for p in data.split(b"\n")[:-1]]
        have = [x for x in got.split(",") if x]
        if have != exp:
            return f"packets received {have} != packets written {exp}"
        return None
    # the library's own bookkeeping must never make the transport abort the connection or stop reading for good
    account = next((ln for ln in real if ln.startswith("check ")), "check ?")
    if "io-full" in real:
        return ("get_buffer() returned an EMPTY buffer while the transport was reading (internal buffer full, reading not paused): "
                "asyncio raises RuntimeError('get_buffer() returned an empty buffer') and aborts the connection, the buffered "
                f"bytes and the rest of the stream are lost ({account[6:]})")
    if "stalled" in real:
        return ("the transport was left paused although the protocol holds no byte: nothing will ever resume it, the rest of "
                "the stream cannot be received")
    # a receive may fail with the connection's OSError or be cancelled, nothing else
    for ln in real:
        if ln.startswith("err ") and not ln.split()[1].isdigit():
            return f"a receive failed with an unexpected exception: {ln}"
    # a receive that asked for bytes and returned none signals end-of-stream: only legitimate after eof / loss
    aux = _aux.get(core.case_digest(case))
    evs_x = aux["executed"] if aux else case["events"]
    outs = [ln for ln in real if not ln.startswith(("held ", "arrived ", "delivered ", "check ", "stalled"))]
    ended, size = False, 0
    for ev, o in zip(evs_x, outs):
        if ev[0] in ("eof", "lost"):
            ended = True
        if ev[0] in ("recv", "into") and o == "start":
            size = ev[1]
        if ev[0] == "turn" and o in ("ret -", "into 0 -") and size > 0 and not ended:
            return "a receive returned no data (end-of-stream signal) although neither EOF nor connection loss happened"
    arrived = next((ln.split()[1] for ln in real if ln.startswith("arrived ")), "-")
    delivered = next((ln.split()[1] for ln in real if ln.startswith("delivered ")), "-")
    arrived = "" if arrived == "-" else arrived
    delivered = "" if delivered == "-" else delivered
    lost = any(ev[0] == "lost" for ev in case["events"])
    if lost:
        if not account.startswith(("check eq", "check prefix")):
            return f"delivered {delivered} is not a prefix of arrived {arrived} ({account[6:]})"
        return None
    if account != "check eq":
        return f"delivered {delivered or '-'} != arrived {arrived or '-'} (bytes lost, duplicated or reordered; {account[6:]})"
    return None


def _windows(events: list) -> list[list]:
    w, cur = [], []
    for ev in events:
        if ev[0] == "turn":
            w.append(cur)
            cur = []
        else:
            cur.append(ev)
    w.append(cur)
    return w


def nontrivial(case: dict, real: list[str]) -> str | None:
    if case.get("kind") in _ITER_KINDS:
        return citer.nontrivial(case, real)
    if case.get("kind") == "bulk":
        return cbulk.nontrivial(case, real)
    if case.get("layer", "proto") == "e2e":
        if any(ln in ("cancelled", "timeout") for ln in real):
            return f"e2e/{case.get('kind', 'endpoint')}/{case['path']}/" + ("timeout" if "timeout" in real else "cancel")
        return None
    # a cancel while a task is alive
    alive, kind, key = False, "", None
    evs = case["events"]
    outs = [ln for ln in real if not ln.startswith("held ")]
    started_turns = 0
    for i, ev in enumerate(evs):
        o = outs[i] if i < len(outs) else ""
        if ev[0] in ("recv", "into") and o == "start":
            alive, kind, started_turns = True, ev[0], 0
        elif ev[0] == "turn":
            started_turns += 1
            if o not in ("parked",):
                alive = False
        elif ev[0] == "cancel" and alive:
            # what else is in this window?
            j = i
            while j > 0 and evs[j - 1][0] != "turn":
                j -= 1
            k = i
            while k < len(evs) and evs[k][0] != "turn":
                k += 1
            before = any(e[0] in ("io", "iogen") for e in evs[j:i])
            after = any(e[0] in ("io", "iogen") for e in evs[i + 1:k])
            pos = "first-step" if started_turns == 0 else ("io-then-cancel" if before else "cancel-then-io" if after else "cancel-alone")
            key = f"proto/{kind}/{pos}" + ("/fill" if case.get("fill") else "")
            if before or after:
                break
    return key


def shrink(case: dict):
    if case.get("kind") in _ITER_KINDS:
        yield from citer.shrink(case)
        return
    if case.get("kind") == "bulk":
        yield from cbulk.shrink(case)
        return
    if case.get("layer", "proto") == "e2e":
        ops = case["ops"]
        for i in range(len(ops)):
            yield {**case, "ops": ops[:i] + ops[i + 1:]}
        return
    evs = case["events"]
    for i in range(len(evs)):
        yield {**case, "events": evs[:i] + evs[i + 1:]}
    for i, ev in enumerate(evs):
        if ev[0] == "io" and len(ev[1]) > 2:
            yield {**case, "events": evs[:i] + [["io", ev[1][:2]]] + evs[i + 1:]}
        if ev[0] in ("recv", "into") and ev[1] > 4 and not case.get("fill"):
            yield {**case, "events": evs[:i] + [[ev[0], 4]] + evs[i + 1:]}


def known_key(case: dict, real: list[str], why: str) -> str:
    """signature of the failure.  Two defects are known by name (docs/C10.md):
    F4  = bytes delivered through the caller's buffer of receive_data_into are dropped when the receive is cancelled in
          the same loop iteration (protocol level; reaches the buffered endpoint / server receiver and the TLS reader);
    F4b = plaintext already read from the SSL object is dropped when recv is cancelled while flushing pending output."""
    if case.get("kind") in _ITER_KINDS:
        return f"layer=e2e,kind={case['kind']},source={case.get('source', case.get('server'))},entry={case.get('entry')}"
    if case.get("kind") == "bulk":
        return f"layer=e2e,kind=bulk,via={case['via']},path={case.get('path')}"
    if case.get("layer", "proto") == "e2e":
        kind = case.get("kind", "endpoint")
        disturbed = any(op[0] in ("cancel", "tick") for op in case["ops"]) or kind == "tls"
        if kind == "tls" and any(op[0] == "bigsend" for op in case["ops"]):
            return "defect=F4b-tls-flush-after-read"
        if disturbed and (kind == "tls" or (case["path"] == "buffered" and kind in ("endpoint", "server"))):
            return "defect=F4-recv_into-cancel"
        return f"layer=e2e,kind={kind},path={case['path']}"
    kinds = {ev[0] for ev in case["events"]}
    if "io-full" in real or "stalled" in real:
        return "layer=proto,flow-control," + ("real-size" if not case.get("max_size") else "small")
    if "into" in kinds and "cancel" in kinds and "lost" not in kinds and "data" not in why:
        if "lost, duplicated or reordered" in why:
            return "defect=F4-recv_into-cancel"
    return "layer=proto,recv=" + "+".join(sorted(k for k in kinds if k in ("recv", "into")))


# ----------------------------------------------------------------------------------------------
def corpus() -> list[dict]:
    cs: list[dict] = []
    for kind in ("into", "recv"):
        # cancel and data in the same loop iteration, both orders (DESIGN §8-F4)
        cs.append({"layer": "proto", "events": [[kind, 8], ["turn"], ["cancel"], ["io", "616263"], ["turn"], ["io", "646566"]]})
        cs.append({"layer": "proto", "events": [[kind, 8], ["turn"], ["io", "616263"], ["cancel"], ["turn"], ["io", "646566"]]})
        # data, more data, then the cancel: the salvaged bytes must come back in front
        cs.append({"layer": "proto", "events": [[kind, 2], ["turn"], ["io", "616263"], ["io", "6465"], ["cancel"], ["turn"]]})
        # cancel before the first step / at the checkpoint of the data-already-there path
        cs.append({"layer": "proto", "events": [["io", "6162"], [kind, 1], ["cancel"], ["turn"]]})
        cs.append({"layer": "proto", "events": [["io", "6162"], [kind, 1], ["turn"], ["cancel"], ["io", "63"], ["turn"]]})
        # end-of-stream and cancel together
        cs.append({"layer": "proto", "events": [[kind, 4], ["turn"], ["io", "61"], ["eof"], ["cancel"], ["turn"]]})
        cs.append({"layer": "proto", "events": [[kind, 4], ["turn"], ["cancel"], ["eof"], ["turn"]]})
    cs.append({"layer": "proto", "events": [["into", 4], ["turn"], ["io", "61626364"], ["lost", 0], ["cancel"], ["turn"]]})
    cs.append({"layer": "proto", "events": [["into", 4], ["turn"], ["io", "6162"], ["lost", 104], ["turn"]]})
    for path in ("buffered", "copy"):
        # timer and read event in the same iteration (I/O callback first, then the timer): data-then-cancel
        cs.append({"layer": "e2e", "path": path, "ops": [["recvpkt", 1.0], ["turn"], ["turn"], ["peer", "61620a"], ["tick", 1.0], ["turn"],
                                                          ["turn"], ["peer", "63640a"]]})
        # call_soon(cancel) queued before the iteration that sees the read event: cancel-then-data
        cs.append({"layer": "e2e", "path": path, "ops": [["recvpkt", None], ["turn"], ["turn"], ["cancel"], ["peer", "61620a"], ["turn"],
                                                          ["turn"], ["peer", "63640a"]]})
        # a partial packet arrives with the cancel
        cs.append({"layer": "e2e", "path": path, "ops": [["recvpkt", 0.5], ["turn"], ["turn"], ["peer", "6162"], ["tick", 0.5], ["turn"],
                                                          ["turn"], ["peer", "630a"]]})
    for path in ("buffered", "copy"):
        # a request handler's yielded timeout expiring in the iteration that sees the data (server request receivers)
        cs.append({"layer": "e2e", "kind": "server", "path": path, "ops": [["recvpkt", 1.0], ["turn"], ["turn"], ["peer", "61620a"], ["tick", 1.0],
                                                                             ["turn"], ["turn"], ["peer", "63640a"]]})
        cs.append({"layer": "e2e", "kind": "server", "path": path, "ops": [["recvpkt", None], ["turn"], ["turn"], ["cancel"], ["peer", "6162"], ["turn"],
                                                                             ["turn"], ["peer", "0a63640a"]]})
        # blocking endpoint: receives that end with TimeoutError after having consumed a partial packet
        cs.append({"layer": "e2e", "kind": "sync", "path": path, "ops": [["peer", "6162"], ["recvpkt", 0], ["peer", "63"], ["recvpkt", 0.002],
                                                                           ["peer", "0a64650a"], ["recvpkt", 0]]})
    # TLS over the socket adapter: the ciphertext reader uses recv_into (caller's buffer) under the hood
    cs.append({"layer": "e2e", "kind": "tls", "path": "tls", "ops": [["recvpkt", 1.0], ["turn"], ["turn"], ["peer", "616263"], ["tick", 1.0], ["turn"],
                                                                      ["turn"], ["peer", "6465"]]})
    cs.append({"layer": "e2e", "kind": "tls", "path": "tls", "ops": [["recvpkt", None], ["turn"], ["turn"], ["cancel"], ["peer", "616263"], ["turn"],
                                                                      ["turn"], ["peer", "6465"]]})
    # a receive parked first, then a sender parked by backpressure (holding the TLS send lock), then data and the timeout:
    # the plaintext is already out of the SSL object when the receive gets cancelled
    cs.append({"layer": "e2e", "kind": "tls", "path": "tls", "ops": [["recvpkt", 1.0], ["turn"], ["turn"], ["bigsend", 2000000], ["turn"], ["turn"],
                                                                      ["turn"], ["peer", "616263"], ["turn"], ["turn"], ["tick", 1.0], ["turn"],
                                                                      ["turn"], ["peer-drain"], ["peer", "6465"]]})
    # round 5: the receive entry points above AsyncStreamEndpoint.recv_packet() (client iterators, UDP client, request receivers,
    # the whole server chain), cancelled at every suspension point (vlib/c10_iter.py)
    cs += citer.corpus()
    # round 6: buffers of the order of the protocol's own buffer / water marks, filled by one read, cancel in the same iteration,
    # more data (vlib/c10_bulk.py): protocol level (max_size 4 … 8192 with the model, the real 256 KiB oracle only) and over the
    # real asyncio selector transport (transport, endpoint, TLS)
    cs += cbulk.corpus_fill()
    cs += cbulk.corpus_bulk()
    return cs


def _gen_proto(rng) -> dict:
    evs: list[list] = []
    nev = rng.randint(3, 16)
    alphabet = b"abcdefghijklmnopqrstuvwxyz"
    pos = 0

    def data(n):
        nonlocal pos
        b = bytes(alphabet[(pos + i) % 26] for i in range(n))
        pos += n
        return b.hex()

    style = rng.random()
    while len(evs) < nev:
        r = rng.random()
        if style < 0.6 and r < 0.35:
            # a critical window: receive parked, then cancel / io in one iteration
            kind = rng.choice(["into", "into", "recv"])
            evs.append([kind, rng.choice([1, 2, 3, 4, 8, 64])])
            if rng.random() < 0.85:
                evs.append(["turn"])
            w = []
            for _ in range(rng.randint(1, 3)):
                w.append(rng.choice([["cancel"], ["io", data(rng.randint(1, 5))], ["io", data(rng.randint(1, 5))]]))
            if rng.random() < 0.08:
                w.insert(rng.randint(0, len(w)), ["eof"])
            evs.extend(w)
            evs.append(["turn"])
        elif r < 0.5:
            evs.append(["turn"])
        elif r < 0.68:
            evs.append(["io", data(rng.randint(1, 6))])
        elif r < 0.8:
            evs.append([rng.choice(["recv", "into"]), rng.choice([0, 1, 2, 3, 5, 8, 1024])])
        elif r < 0.93:
            evs.append(["cancel"])
        elif r < 0.96:
            evs.append(["eof"])
        elif r < 0.975:
            evs.append(["lost", rng.choice([0, 0, 104, 32])])
        else:
            evs.append(["turn"])
    case = {"layer": "proto", "events": evs[:20]}
    if rng.random() < 0.15:
        case["max_size"] = rng.choice([4, 6, 16])
    return case


def _gen_e2e(rng) -> dict:
    path = rng.choice(["buffered", "copy"])
    ops: list[list] = []
    words = [b"ab", b"c", b"defg", b"hi", b"jklmnopq", b"r"]
    stream = b"".join(rng.choice(words) + b"\n" for _ in range(rng.randint(1, 5)))
    off = 0
    for _ in range(rng.randint(1, 4)):
        t = rng.choice([None, 0.5, 1.0, 0.25])
        ops.append(["recvpkt", t])
        for _ in range(rng.randint(0, 2)):
            ops.append(["turn"])
        w = []
        if off < len(stream) and rng.random() < 0.8:
            n = rng.randint(1, 6)
            w.append(["peer", stream[off:off + n].hex()])
            off += n
        if t is not None and rng.random() < 0.7:
            w.append(["tick", t])
        if rng.random() < 0.4:
            w.append(["cancel"])
        rng.shuffle(w)
        ops.extend(w)
        for _ in range(rng.randint(1, 3)):
            ops.append(["turn"])
    if off < len(stream):
        ops.append(["peer", stream[off:].hex()])
    kind = rng.choice(["endpoint", "endpoint", "server"])
    return {"layer": "e2e", "kind": kind, "path": path, "ops": ops, "max_recv_size": rng.choice([2, 8, 64])}


def _gen_tls(rng) -> dict:
    c = _gen_e2e(rng)
    ops = [op for op in c["ops"]]
    if rng.random() < 0.35:
        # a sender parked by backpressure somewhere in the middle
        k = rng.randint(1, max(1, len(ops) - 1))
        ops[k:k] = [["bigsend", 1500000], ["turn"], ["turn"]]
        if rng.random() < 0.5:
            ops.append(["peer-drain"])
    return {"layer": "e2e", "kind": "tls", "path": "tls", "ops": ops}


def _gen_sync(rng) -> dict:
    path = rng.choice(["buffered", "copy"])
    words = [b"ab", b"c", b"defg", b"hi", b"jklmnopq", b"r"]
    stream = b"".join(rng.choice(words) + b"\n" for _ in range(rng.randint(1, 5)))
    ops: list[list] = []
    off = 0
    while off < len(stream):
        n = rng.randint(1, 5)
        ops.append(["peer", stream[off:off + n].hex()])
        off += n
        for _ in range(rng.randint(0, 2)):
            ops.append(["recvpkt", rng.choice([0, 0, 0.001])])
    return {"layer": "e2e", "kind": "sync", "path": path, "ops": ops, "max_recv_size": rng.choice([1, 2, 8, 64])}


def _exhaustive_proto(maxlen: int):
    import itertools

    alphabet = [["into", 2], ["recv", 2], ["io", "6162"], ["io", "63"], ["cancel"], ["turn"], ["eof"]]
    for ln in range(1, maxlen + 1):
        for combo in itertools.product(alphabet, repeat=ln):
            if not any(e[0] in ("into", "recv") for e in combo):
                continue
            yield {"layer": "proto", "events": [list(e) for e in combo]}


def generate(rng, tier: str, boost: int):
    if tier == "thorough" and boost == 1:
        # small-scope enumeration: every event list of length <= 5 over a 7-letter alphabet (validation, not the theorem)
        yield from _exhaustive_proto(5)
    n = (5000 if tier == "quick" else 100000) * boost
    for _ in range(n):
        yield _gen_proto(rng)
    m = (400 if tier == "quick" else 2500) * boost
    for _ in range(m):
        yield _gen_e2e(rng)
    for _ in range(m // 4):
        yield _gen_sync(rng)
    for _ in range(m // 5):
        yield _gen_tls(rng)
    for i in range((450 if tier == "quick" else 12000) * boost):
        yield citer.gen_srvfull(rng) if i % 7 == 0 else citer.gen_citer(rng)
    for i in range((600 if tier == "quick" else 12000) * boost):
        yield cbulk.gen_fill(rng, real=(i % 20 == 0))
    for _ in range((24 if tier == "quick" else 300) * boost):
        yield cbulk.gen_bulk(rng)


def extra_coverage(stats) -> dict:
    g, s = drv.probe_variant()
    return {"protocol_variant_probed": {"get_buffer_guard": bool(g), "salvage_on_cancelled_wakeup": bool(s)},
            "theorems_apply_to_probed_variant": bool(g and s)}
