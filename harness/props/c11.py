"""
C11 — A timeout is a budget for the whole blocking operation.

real run : sessions of blocking calls on the REAL StreamEndpoint / TCPNetworkClient (plain and TLS flavour, copying and
           buffered receive path), ClientRecvIterator, SocketDatagramTransport and UDPNetworkClient, over scripted sockets, a scripted
           selector, a scripted lock and a virtual clock (vlib/c04_env.py, vlib/c11_env.py): arrival schedules
           (drip-feed, bursts, spurious readiness, retry-interval wake-ups, select over-sleep), timeouts 0 / finite / None.
model run: the same session through the Lean model (Model/Retry.lean, Model/Send.lean, Model/Timeout.lean); the receive
           loop is generic in the consumer and the read size, instantiated with the C01 copying and buffered consumers.
oracle   : per call — time spent waiting (select + lock) <= T, elapsed <= T + processing + over-sleep, zero timeout
           never waits, TimeoutError only after >= T elapsed and only while no complete packet had been delivered by
           the socket; packets returned == decoding of the bytes delivered, in order; with a finite retry_interval every
           select() wait is <= retry_interval whatever the timeout (also None) and the call never sleeps without a bound.
           Asynchronous iterator (vlib/c11_async.py, oracle only): budget carried across packets (`aiter`), and - `aiterbuf`:
           real AsyncTCPNetworkClient on loopback / in-memory client under a virtual-time loop - a packet already in the
           client's buffer is handed out whatever the budget (0, default, exhausted); TimeoutError only when the next
           packet really cannot arrive within what is left.
"""
from __future__ import annotations

from typing import Any

from vlib import core
from vlib import c04_env as env
from vlib import c11_env as s11
from props import c04

ID = "C11"
CLAIMED = True
TITLE = "A timeout is a budget for the whole blocking operation"
REQUIRED_THEOREMS = ["C11_retry_budget", "C11_zero_never_waits", "C11_timeout_only_if_blocked", "C11_receive_budget",
                     "C11_send_budget", "C11_lock_included", "C11_iter_budget", "C11_udp_client_budget",
                     "C11_lock_released_iff_acquired"]
LEVEL_TEXT = (
    "Machine-checked proof (Lean 4) on a statement-by-statement model of _retry, ElapsedTime.recompute_timeout, "
    "lock_with_timeout, the receive loop of the stream endpoint, send_all / the sendmsg loop and ClientRecvIterator: for every "
    "arrival schedule, selector behaviour, retry interval and consumer, the time spent waiting is at most T, the elapsed time "
    "is at most T + processing + select over-sleep, a zero timeout never waits and TimeoutError implies that T has elapsed and the "
    "last attempt blocked (or the budget was zero and the read was short); plus differential correspondence against the real "
    "endpoints/clients under scripted sockets, selector, lock and clock, plus a direct oracle."
)
LEVEL_NOTE = (
    "Trusted: Lean kernel (axioms propext, Quot.sound, Classical.choice only); model tied to the code by the sampled "
    "correspondence check; the virtual clock only advances inside select(), lock.acquire() and scripted processing ticks, so "
    "real-clock jitter of select() is represented by scripted over-sleep; the asynchronous iterator is exercised by the oracle only."
)
TECHNIQUE = "Lean 4 theorems (loop invariants over environment scripts, exact time accounting) + model/code differential correspondence under a virtual clock + direct oracle"
TRUSTED_BASE = [
    "Lean 4.33.0 kernel; axioms allowed: propext, Classical.choice, Quot.sound",
    "hand-written models EasyNet/Model/{Retry,Send,Timeout}.lean tied to base_selector._retry, _utils.ElapsedTime/lock_with_timeout, "
    "endpoints/stream._DataReceiverImpl.receive, clients/_iter.ClientRecvIterator, clients/tcp.TCPNetworkClient by this correspondence check (sampled)",
    "harness: scripted socket / selector / lock / virtual clock (vlib/c04_env.py, vlib/c11_env.py), canonicaliser, endriver line parser",
    "the stream consumer is a parameter of the receive theorems (any function); the driver instantiates it with the C01 separator framer",
]
ASSUMPTIONS = [
    "time advances only in select(), lock.acquire() and scripted processing ticks (virtual clock); 1 tick = 1.0 s, integers only",
    "a lock acquired after d <= timeout ticks counts as acquired (ties resolved in favour of acquisition)",
    "TimeoutError legitimacy is stated as: the whole budget has elapsed and the last attempt blocked / was a short read with no budget left",
]
RULE = (
    "case = session config (stream endpoint | TCP client | datagram transport; plain | TLS; copy | buffered; max_recv_size; retry_interval) x "
    "sequence of calls (recv_packet / send_packet / iter_received_packets / processing ticks) each with timeout, lock contention, socket "
    "script (drip-feed, bursts, would-block, EOF, reset) and selector script (ready after d, expired, over-sleep, never-ready "
    "descriptor; no time budget x finite retry_interval over-sampled); asynchronous iterator: delays x gaps x budget, and buffered "
    "bursts x recv_packet() first x timeout 0 / default / run down to 0 by processing time x later arrivals (TCP loopback, in-memory); non-trivial = "
    "at least one select() or lock wait or partial read happened; distinct by full case digest"
)


# ----------------------------------------------------------------------------------------------------------------

def run_real(case: dict) -> list[str]:
    if case.get("kind") in ("aiter", "aiterbuf"):
        from vlib import c11_async

        return c11_async.run_real(case)
    return s11.run_session(case)


def _lock_s(op: dict, layer: str) -> str:
    if layer != "client":
        return "none"
    lk = op.get("lock", ["free"])
    return "free" if lk[0] == "free" else f"busy:{lk[1]}"


def _t(t) -> str:
    return "inf" if t is None else str(t)


def _scripts(op: dict) -> list[str]:
    out = [f"sock {k} {n} {p}" for k, n, p in op.get("sock", [])]
    # `never d` (vlib/c04_env.py: the descriptor never signals, only bounded waits come back) is `expired d` for the model
    out += [f"sel {'expired' if k == 'never' else k} {d}" for k, d in op.get("sel", [])]
    return out


def model_input(case: dict, real: list[str]):
    if case.get("kind") in ("aiter", "aiterbuf"):
        return None
    cfg = case["cfg"]
    mpath = cfg["path"]
    if mpath == "bufhead":
        # user-defined buffered serializer with a reserved head area, consumed chunk by chunk: its observable behaviour in the
        # receive loop is the model's generic `recvLoop` with room = the (fixed) write view and the separator consumer - i.e.
        # the "copy" instance with bufsize = VIEW.  (Not compared when the size limit of the toy serializer is reached.)
        if any(ln == "ret parse" for ln in real):
            return None
        mpath = "copy"
    head = (f"tmo {cfg['kind']} {cfg['layer']} {cfg['flavour']} {mpath} {cfg['bufsize']} {_t(cfg['ri'])} "
            f"{s11.SEP.hex()} {s11.LIMIT} {1 if c04.code_is_fixed() else 0}")
    ops: list[str] = []
    for op in case["ops"]:
        k = op["op"]
        if k == "tick":
            ops.append(f"op tick {op['p']}")
        elif k == "recv":
            ops.append(f"op recv {_t(op['T'])} {_lock_s(op, cfg['layer'])}")
            ops += _scripts(op)
        elif k == "send":
            ops.append(f"op send {_t(op['T'])} {op['data'] or '-'} {_lock_s(op, cfg['layer'])}")
            ops += _scripts(op)
        elif k == "iter":
            ops.append(f"op iter {_t(op['T'])}")
            for nx in op["nexts"]:
                ops.append(f"next {nx.get('gap', 0)} {_lock_s(nx, 'client')}")
                ops += _scripts(nx)
    return head, ops


# ----------------------------------------------------------------------------------------------------------------
# oracle
# ----------------------------------------------------------------------------------------------------------------

def _split_calls(case: dict, real: list[str]):
    """[(descr, script-dict, T, lines)] for every timed call (recv/send/next) in order; iterator calls carry the
    iterator's key so that their budgets can be summed"""
    calls = []
    ops = case["ops"]
    i = -1
    cur: list[str] | None = None
    pending_next = None
    it_idx = 0
    for ln in real:
        if ln.startswith("op "):
            i = int(ln.split()[1])
            op = ops[i]
            if op["op"] in ("recv", "send"):
                cur = []
                calls.append({"kind": op["op"], "op": op, "T": op["T"], "lines": cur, "iter": None})
            elif op["op"] == "iter":
                it_idx = 0
                cur = None
            else:
                cur = None
        elif ln == "next":
            op = ops[i]
            nx = op["nexts"][it_idx]
            it_idx += 1
            cur = []
            calls.append({"kind": "next", "op": nx, "T": None, "lines": cur, "iter": (i, op["T"])})
        elif cur is not None:
            cur.append(ln)
    return calls


def _account(call: dict):
    """(waited, over, proc, lockwait, selects, rcalls, consumed sock events, ret, elapsed)"""
    lines = call["lines"]
    op = call["op"]
    sel = op.get("sel", [])
    sock = op.get("sock", [])
    waited = over = lockwait = 0
    over_max = 0
    nsel = 0
    unbounded = False
    for ln in lines:
        p = ln.split()
        if p[0] == "select":
            ev = sel[nsel]
            nsel += 1
            if p[2] == "inf":
                unbounded = True
                continue
            wv = int(p[2])
            el = ev[1] if ev[0] == "ready" else wv + ev[1]
            waited += min(wv, el)
            over += max(0, el - wv)
            over_max = max(over_max, max(0, el - wv))
        elif p[0] in ("lock", "olock") and p[1] == "wait":
            lk = op.get("lock" if p[0] == "lock" else "olock", ["free"])
            d = 0 if lk[0] == "free" else lk[1]
            if p[2] == "inf":
                unbounded = unbounded or d > 0
                continue
            lockwait += min(d, int(p[2]))
    ncalls = sum(1 for ln in lines if ln.startswith(("rcall ", "call ")))
    consumed = sock[:ncalls]
    proc = sum(e[2] for e in consumed)
    ret = next((ln[4:] for ln in lines if ln.startswith("ret ")), None)
    tm = next((int(ln[2:]) for ln in lines if ln.startswith("t ")), None)
    _account.last_over_max = over_max      # (side channel: the largest single over-sleep of this call)
    return waited, over, proc, lockwait, nsel, consumed, ret, tm, unbounded


def oracle(case: dict, real: list[str]) -> str | None:
    if case.get("kind") in ("aiter", "aiterbuf"):
        from vlib import c11_async

        return c11_async.oracle(case, real)
    for ln in real:
        if ln.startswith("harness-"):
            return f"harness problem: {ln}"
    cfg = case["cfg"]
    stream = bytearray()     # bytes delivered by the socket and not yet returned as packets
    eof = False
    iter_spent: dict[Any, list[int]] = {}
    for call in _split_calls(case, real):
        waited, over, proc, lockwait, nsel, consumed, ret, tm, unbounded = _account(call)
        if ret is None or tm is None:
            return f"call without outcome: {call['lines'][-3:]}"
        for ln in call["lines"]:
            if ln.endswith(" release-foreign"):
                return ("the call released a lock it had not acquired while another thread holds it (threading.Lock has no owner "
                        "check): the other thread's critical section is broken open")
        # retry_interval: with a finite retry interval every select() is bounded by it whatever the timeout (also None) - that
        # is how a would-block condition which the descriptor never signals is still re-tried (and how the remaining budget is
        # re-examined); an unbounded select() there blocks for ever
        if cfg["ri"] is not None:
            for ln in call["lines"]:
                p = ln.split()
                if p[0] == "select" and (p[2] == "inf" or float(p[2]) > cfg["ri"]):
                    return (f"select() {'without any timeout' if p[2] == 'inf' else 'for ' + p[2] + ' ticks'} although "
                            f"retry_interval={cfg['ri']} (timeout={call['T'] if call['iter'] is None else call['iter'][1]}): "
                            "the operation is not re-tried every retry_interval")
        if ret == "exhausted hang":
            if cfg["ri"] is None:
                return None     # no retry interval and no budget left to bound the wait: waiting for ever is what was asked for
            return "the call blocks for ever: select() without timeout on a descriptor that never signals the awaited condition"
        if ret.startswith("exhausted"):
            return None   # the environment script of this call ended: nothing more can be said (generator pads scripts)
        T = call["T"]
        if call["iter"] is not None:
            key, T0 = call["iter"]
            spent = iter_spent.setdefault(key, [0, 0])   # [waiting, elapsed - proc - over]
            T = None if T0 is None else max(0, T0 - spent[1])
            # budget of the whole iterator
            if T0 is not None and spent[0] + waited + lockwait > T0:
                return f"iterator with timeout {T0} waited {spent[0] + waited + lockwait} ticks in total"
        if ret.startswith("exc ") or ret == "closed":
            return f"unexpected exception {ret}"
        if T is not None:
            if unbounded:
                return "unbounded wait although the call has a finite timeout"
            if waited + lockwait > T:
                return f"waited {waited + lockwait} ticks (select {waited} + lock {lockwait}) with a timeout of {T}"
            if tm > T + proc + over:
                return f"call took {tm} ticks: more than timeout {T} + processing {proc} + over-sleep {over}"
            # the time really spent in select() is what must be charged to the budget: a select() that over-sleeps shortens
            # the waits after it, so the whole call can overshoot by ONE over-sleep (the last wait's) - never by their sum
            if call["iter"] is None and tm > T + proc + getattr(_account, "last_over_max", over):
                return (f"call took {tm} ticks with a timeout of {T} (+ processing {proc}): the over-sleeps of several select() "
                        f"calls add up ({over} in total, {getattr(_account, 'last_over_max', over)} at most for one): "
                        "the measured waiting time is not what is deducted from the budget")
            if T == 0 and (nsel or any(ln.startswith(("lock wait", "olock wait")) for ln in call["lines"])):
                return "zero timeout but the call waited"
        if any(ln.endswith(" left-held") for ln in call["lines"]):
            return ("the call returned but still holds the client's lock: every later call in that direction blocks until its "
                    "timeout (or for ever)")
        # the lock could not be had within the budget: a legitimate TimeoutError whatever is buffered
        lk = call["op"].get("lock", ["free"])
        lock_failed = False
        if lk[0] == "busy" and any(ln == "lock try" for ln in call["lines"]):
            waits = [ln.split()[2] for ln in call["lines"] if ln.startswith("lock wait")]
            lock_failed = (not waits) or (waits[0] != "inf" and lk[1] > int(waits[0]))
        if lock_failed:
            if ret not in ("timeout", "stop"):
                return f"lock not acquired within the budget but the call ended with {ret}"
            if T is None or tm < T:
                return f"TimeoutError on the lock after {tm} ticks with a budget of {T}"
            if len(consumed):
                return "socket used although the lock was not acquired"
        elif call["kind"] in ("recv", "next") and cfg["kind"] == "stream":
            sizes = [int(ln.split()[1]) for ln in call["lines"] if ln.startswith("rcall ")]
            for e, size in zip(consumed, sizes):
                if e[0] == "data":
                    if e[1] == "-":
                        eof = True
                    else:
                        stream += bytes.fromhex(e[1])[:size]
                elif e[0] == "zeroret":
                    eof = True
                elif e[0] in ("reset", "pipe") and cfg["layer"] == "client":
                    eof = True    # TCPNetworkClient turns every ConnectionError into ECONNABORTED
            complete = s11.SEP in stream
            if ret.startswith("pkt "):
                if not complete:
                    return f"packet {ret} returned but the bytes delivered so far hold no complete packet"
                exp, _, rest = bytes(stream).partition(s11.SEP)
                got = bytes.fromhex(ret[4:]) if ret[4:] != "-" else b""
                if got != exp:
                    return f"returned packet {got!r} but the next packet on the stream is {exp!r}"
                stream = bytearray(rest)
            elif ret in ("timeout", "stop", "eof"):
                if complete:
                    return f"{ret} although a complete packet had already been delivered by the socket ({bytes(stream)!r})"
                if ret == "eof" and not eof:
                    return "end-of-stream error although the socket never reported EOF"
                if ret == "timeout" or (ret == "stop" and not eof and not (consumed and consumed[-1][0] in ("reset", "pipe"))):
                    if T is None:
                        return "TimeoutError without a timeout"
                    if tm < T:
                        return f"TimeoutError after {tm} ticks with a budget of {T}"
                    if consumed:
                        last = consumed[-1]
                        short = last[0] == "data" and last[1] != "-" and len(bytes.fromhex(last[1])) < sizes[len(consumed) - 1]
                        if not (last[0] in env.BLOCK_KINDS or short):
                            return ("TimeoutError although the last socket read neither blocked nor was short "
                                    "(more data may have been available without waiting)")
            elif ret.startswith("err "):
                if cfg["layer"] == "client" or not consumed or consumed[-1][0] != ret.split()[1]:
                    return f"{ret} although the socket did not report it"
            elif ret == "rterr":
                pass
            else:
                return f"unexpected outcome {ret}"
        elif call["kind"] == "recv":   # datagram
            if ret == "timeout":
                if T is None:
                    return "TimeoutError without a timeout"
                if tm < T:
                    return f"TimeoutError after {tm} ticks with a budget of {T}"
                if consumed and consumed[-1][0] not in env.BLOCK_KINDS:
                    return "TimeoutError although the last socket call did not block"
            elif ret.startswith("pkt "):
                if not consumed or consumed[-1][0] != "data":
                    return "datagram returned although the socket did not deliver one"
        else:   # send
            if ret == "timeout":
                if T is None:
                    return "TimeoutError without a timeout"
                if tm < T:
                    return f"TimeoutError after {tm} ticks with a budget of {T}"
        if call["iter"] is not None:
            spent = iter_spent[call["iter"][0]]
            spent[0] += waited + lockwait
            spent[1] += tm
    return None


def nontrivial(case: dict, real: list[str]) -> str | None:
    if case.get("kind") == "aiterbuf":
        return f"aiterbuf/{case['client']}/{case['path']}"
    if case.get("kind") == "aiter":
        return "aiter"
    cfg = case["cfg"]
    tags = set()
    for ln in real:
        if ln.startswith("select "):
            tags.add("select")
        elif ln.startswith("lock wait"):
            tags.add("lock")
        elif ln.startswith("olock"):
            tags.add("olock")
        elif ln == "ret timeout" or ln == "ret stop":
            tags.add("timeout")
    nr = sum(1 for ln in real if ln.startswith("rcall "))
    np_ = sum(1 for ln in real if ln.startswith("ret pkt"))
    if nr > np_ + 1:
        tags.add("partial")
    if not tags:
        return None
    return f"{cfg['kind']}/{cfg['layer']}/{cfg['flavour']}/{cfg['path']}/" + "+".join(sorted(tags))


def shrink(case: dict):
    if case.get("kind") == "aiterbuf":
        ops = case["ops"]
        for i in range(len(ops)):
            if len(ops) > 1:
                yield {**case, "ops": ops[:i] + ops[i + 1:]}
        return
    if case.get("kind") == "aiter":
        calls = case["calls"]
        for i in range(len(calls)):
            if len(calls) > 1:
                yield {**case, "calls": calls[:i] + calls[i + 1:]}
        for i, (g, d) in enumerate(calls):
            if g:
                yield {**case, "calls": calls[:i] + [[0, d]] + calls[i + 1:]}
        return
    ops = case["ops"]
    for i in range(len(ops)):
        if len(ops) > 1:
            yield {**case, "ops": ops[:i] + ops[i + 1:]}
    for i, op in enumerate(ops):
        for key in ("sock", "sel"):
            lst = op.get(key, [])
            for j in range(len(lst)):
                yield {**case, "ops": ops[:i] + [{**op, key: lst[:j] + lst[j + 1:]}] + ops[i + 1:]}
        if op.get("lock", ["free"])[0] != "free":
            yield {**case, "ops": ops[:i] + [{**op, "lock": ["free"]}] + ops[i + 1:]}
        if op.get("olock", ["free"])[0] != "free":
            yield {**case, "ops": ops[:i] + [{k_: v_ for k_, v_ in op.items() if k_ != "olock"}] + ops[i + 1:]}
        if op["op"] == "iter" and len(op["nexts"]) > 1:
            yield {**case, "ops": ops[:i] + [{**op, "nexts": op["nexts"][:-1]}] + ops[i + 1:]}
    cfg = case["cfg"]
    never = any(e[0] == "never" for o in ops for x in [o] + o.get("nexts", []) for e in x.get("sel", []))
    if cfg["ri"] is not None and not never:
        yield {**case, "cfg": {**cfg, "ri": None}}
    if cfg["layer"] == "client" and cfg["kind"] == "stream" and not any(o["op"] == "iter" for o in ops):
        yield {**case, "cfg": {**cfg, "layer": "endpoint"}}


def known_key(case: dict, real: list[str], why: str) -> str:
    if case.get("kind") == "aiterbuf":
        return f"kind=aiterbuf,client={case['client']},path={case['path']}"
    if case.get("kind") == "aiter":
        return "kind=aiter"
    cfg = case["cfg"]
    word = why.split()[0] if why else "?"
    return f"kind={cfg['kind']},layer={cfg['layer']},flavour={cfg['flavour']},path={cfg['path']},why={word}"


# ----------------------------------------------------------------------------------------------------------------
# cases
# ----------------------------------------------------------------------------------------------------------------

def _cfg(kind="stream", layer="endpoint", flavour="plain", path="copy", bufsize=4, ri=None) -> dict:
    return {"kind": kind, "layer": layer, "flavour": flavour, "path": path, "bufsize": bufsize, "ri": ri}


def _pad_recv(bufsize: int) -> list:
    line = b"zz\n"
    return [["data", line[i:i + bufsize].hex(), 0] for i in range(0, len(line), bufsize)] * 2


def _recv(T, sock, sel, lock=None, bufsize=4) -> dict:
    op = {"op": "recv", "T": T, "sock": [list(e) for e in sock] + _pad_recv(bufsize), "sel": [list(e) for e in sel]}
    if lock is not None:
        op["lock"] = list(lock)
    return op


def corpus() -> list[dict]:
    from vlib import c11_async

    cs = list(c11_async.corpus_buffered())
    for fl, blk in (("plain", "eagain"), ("tls", "wantr")):
        # drip-feed, one byte per wake-up, budget just enough / just not enough
        drip = [[blk, 0, 0], ["data", "61", 0], [blk, 0, 0], ["data", "62", 0], [blk, 0, 0], ["data", "0a", 0]]
        cs.append({"cfg": _cfg(flavour=fl), "ops": [_recv(6, drip, [["ready", 2]] * 3)]})
        cs.append({"cfg": _cfg(flavour=fl), "ops": [_recv(5, drip, [["ready", 2]] * 3)]})
        cs.append({"cfg": _cfg(flavour=fl), "ops": [_recv(4, drip, [["ready", 2], ["ready", 2], ["ready", 0], ["ready", 0]])]})
        # zero timeout: never waits; short read ends the call, full buffers are drained
        cs.append({"cfg": _cfg(flavour=fl), "ops": [_recv(0, [[blk, 0, 0]], [])]})
        cs.append({"cfg": _cfg(flavour=fl, bufsize=2), "ops": [_recv(0, [["data", "6162", 0], ["data", "63", 0], ["data", "0a", 0]], [])]})
        cs.append({"cfg": _cfg(flavour=fl, bufsize=2), "ops": [_recv(0, [["data", "6162", 0], ["data", "630a", 0]], [])]})
        # retry-interval wake-ups and over-sleep
        cs.append({"cfg": _cfg(flavour=fl, ri=2), "ops": [_recv(5, [[blk, 0, 0]] * 4 + [["data", "610a", 1]],
                                                                    [["expired", 0], ["expired", 1], ["ready", 1], ["ready", 0]])]})
        cs.append({"cfg": _cfg(flavour=fl, ri=2), "ops": [_recv(None, [[blk, 0, 0]] * 3 + [["data", "610a", 0]],
                                                                    [["expired", 0], ["expired", 0], ["ready", 1]])]})
        # burst: two packets in one read, second call returns without touching the socket
        cs.append({"cfg": _cfg(flavour=fl, bufsize=8), "ops": [_recv(3, [["data", "610a620a63", 0]], []), _recv(0, [[blk, 0, 0]], []),
                                                                   _recv(2, [[blk, 0, 0], ["data", "0a", 0]], [["ready", 1]])]})
        # EOF / reset
        cs.append({"cfg": _cfg(flavour=fl), "ops": [_recv(3, [["data", "61", 0], ["data", "-", 0]], []), _recv(3, [], [])]})
        cs.append({"cfg": _cfg(flavour=fl), "ops": [_recv(3, [[blk, 0, 0], ["reset", 0, 0]], [["ready", 1]])]})
        # NO time budget, finite retry_interval, a would-block condition the descriptor NEVER signals (selector: only expiries):
        # every _retry caller must wake up every retry_interval and try again - k blocks = k waits, then the call completes
        for path in ("copy", "buffered"):
            for layer in ("endpoint", "client"):
                for ri_ in (1, 3):
                    cs.append({"cfg": _cfg(layer=layer, flavour=fl, path=path, ri=ri_), "ops": [
                        _recv(None, [[blk, 0, 0], [blk, 0, 1], ["data", "61", 0], [blk, 0, 0], ["data", "0a", 0]], [["never", 0]] * 3),
                        {"op": "send", "T": None, "data": "6162", "lock": ["free"],
                         "sock": [[blk, 0, 0], ["sent", 1, 0], [blk, 0, 0], [blk, 0, 0]] + [["sent", 99, 0]] * 4, "sel": [["never", 0]] * 3},
                        _recv(5, [[blk, 0, 0]] * 6, [["never", 0]] * 6)]})
    for ri_ in (1, 2):
        cs.append({"cfg": _cfg(kind="dgram", bufsize=64, ri=ri_), "ops": [
            {"op": "recv", "T": None, "sock": [["eagain", 0, 0], ["eintr", 0, 1], ["eagain", 0, 0], ["data", "6162", 0]], "sel": [["never", 0]] * 3},
            {"op": "send", "T": None, "data": "6162", "sock": [["eagain", 0, 0], ["eagain", 0, 0], ["sent", 2, 0]], "sel": [["never", 1]] * 2}]})
        cs.append({"cfg": _cfg(layer="client", ri=ri_), "ops": [{"op": "iter", "T": None, "nexts": [
            {"gap": 0, "lock": ["free"], "sock": [["eagain", 0, 0], ["eagain", 0, 0], ["data", "610a", 0]] + _pad_recv(4), "sel": [["never", 0]] * 2},
            {"gap": 2, "lock": ["free"], "sock": [["eagain", 0, 0], ["data", "620a", 0]] + _pad_recv(4), "sel": [["never", 0]]}]}]})
    # lock contention is part of the budget
    drip = [["eagain", 0, 0], ["data", "610a", 0]]
    cs.append({"cfg": _cfg(layer="client"), "ops": [_recv(5, drip, [["ready", 2]], lock=["busy", 3])]})
    cs.append({"cfg": _cfg(layer="client"), "ops": [_recv(5, drip, [["ready", 2]], lock=["busy", 5])]})
    cs.append({"cfg": _cfg(layer="client"), "ops": [_recv(5, drip, [["ready", 2]], lock=["busy", 6])]})
    cs.append({"cfg": _cfg(layer="client"), "ops": [_recv(0, drip, [["ready", 2]], lock=["busy", 1])]})
    cs.append({"cfg": _cfg(layer="client"), "ops": [_recv(None, drip, [["ready", 2]], lock=["busy", 4])]})
    cs.append({"cfg": _cfg(layer="client"), "ops": [{"op": "send", "T": 4, "data": "6162", "lock": ["busy", 2],
                                                       "sock": [["eagain", 0, 0], ["sent", 1, 0], ["eagain", 0, 1], ["sent", 9, 0]] + [["sent", 99, 0]] * 4,
                                                       "sel": [["ready", 1], ["ready", 1], ["ready", 0]]}]})
    # iterator: the budget is carried across packets
    nx = lambda gap, sock, sel, lock=("free",): {"gap": gap, "lock": list(lock), "sock": sock + _pad_recv(4), "sel": sel}  # noqa: E731
    cs.append({"cfg": _cfg(layer="client"), "ops": [{"op": "iter", "T": 6, "nexts": [
        nx(0, [["eagain", 0, 0], ["data", "610a", 0]], [["ready", 3]]),
        nx(5, [["eagain", 0, 0], ["data", "620a", 0]], [["ready", 2]]),
        nx(0, [["eagain", 0, 0], ["data", "630a", 0]], [["ready", 2]]),
        nx(0, [["eagain", 0, 0], ["data", "640a", 0]], [["ready", 2]])]}]})
    cs.append({"cfg": _cfg(layer="client", ri=1), "ops": [{"op": "iter", "T": 0, "nexts": [
        nx(0, [["data", "610a620a", 0]], []), nx(1, [], []), nx(0, [["eagain", 0, 0]], [])]}]})
    cs.append({"cfg": _cfg(layer="client"), "ops": [{"op": "iter", "T": None, "nexts": [
        nx(0, [["eagain", 0, 0], ["data", "610a", 0]], [["ready", 30]], ("busy", 7)), nx(0, [["data", "-", 0]], [])]}]})
    # buffered protocol whose serializer reserves a head area (write view smaller than the buffer): a burst that needs several
    # reads with a zero budget - every read fills its view, so the loop must go on reading and deliver the packets
    big = (b"abcdefghijklmnopqrstuvwxyz" * 2 + b"\n")
    for layer in ("endpoint", "client"):
        for T_ in (0, 3):
            sock_ = [["data", big[i:i + 8].hex(), 0] for i in range(0, len(big), 8)]
            cs.append({"cfg": _cfg(layer=layer, path="bufhead", bufsize=s11.VIEW), "ops": [
                {"op": "recv", "T": T_, "lock": ["free"], "sock": sock_ + _pad_recv(s11.VIEW), "sel": [["ready", 0]] * 3}]})
    # datagram client: lock + one _retry; the other direction's lock is held by another thread meanwhile
    dsock = [["eagain", 0, 0], ["data", "6162", 0], ["eagain", 0, 0]]
    for lock_, T_ in ((["free"], 3), (["busy", 2], 5), (["busy", 6], 5), (["busy", 1], 0), (["busy", 4], None)):
        cs.append({"cfg": _cfg(kind="dgram", layer="client", bufsize=65536), "ops": [
            {"op": "recv", "T": T_, "lock": lock_, "olock": ["busy", 50], "sock": dsock, "sel": [["ready", 2], ["ready", 0]]},
            {"op": "send", "T": T_, "data": "6162", "lock": lock_, "olock": ["busy", 50],
             "sock": [["eagain", 0, 0], ["sent", 2, 0], ["eagain", 0, 0]], "sel": [["ready", 1], ["ready", 0]]}]})
    cs.append({"cfg": _cfg(layer="client"), "ops": [_recv(5, drip, [["ready", 2]], lock=["busy", 3]) | {"olock": ["busy", 50]},
                                                    _recv(0, drip, [["ready", 2]], lock=["free"]) | {"olock": ["busy", 50]}]})
    # datagram transport = one _retry
    cs.append({"cfg": _cfg(kind="dgram", bufsize=64), "ops": [
        {"op": "recv", "T": 3, "sock": [["eagain", 0, 0], ["eintr", 0, 1], ["data", "6162", 0]], "sel": [["ready", 1], ["ready", 2]]},
        {"op": "recv", "T": 3, "sock": [["eagain", 0, 0], ["eintr", 0, 1], ["data", "6162", 0]], "sel": [["ready", 1], ["expired", 0]]},
        {"op": "send", "T": 0, "data": "6162", "sock": [["eagain", 0, 0]], "sel": []},
        {"op": "send", "T": None, "data": "6162", "sock": [["eagain", 0, 0], ["sent", 2, 0]], "sel": [["ready", 9]]}]})
    return cs


def gen_recv_script(rng, flavour: str, bufsize: int, T, ri, carry: list, *, allow_end=True, dgram=False):
    """arrival schedule for one receive call.  `carry` = [bytes] not yet complete line prefix pending on the wire (mutated)"""
    blocks = ["eagain", "eintr"] if flavour == "plain" else ["wantr", "wantw", "sysc"]
    sock: list = []
    style = rng.random()
    p_block = rng.choice([0.0, 0.3, 0.5, 0.7])
    if dgram:
        n_ev = rng.randint(0, 4)
        for _ in range(n_ev):
            sock.append([rng.choice(blocks), 0, rng.choice([0, 0, 0, 1])])
        r = rng.random()
        if r < 0.75:
            sock.append(["data", bytes(rng.randrange(97, 123) for _ in range(rng.randint(0, 5))).hex() or "-", rng.choice([0, 0, 1])])
        elif r < 0.8:
            sock.append(["reset", 0, 0])
        for _ in range(3):
            sock.append([rng.choice(blocks), 0, 0])
    else:
        # bytes that will arrive: rest of a line, maybe more lines (burst), maybe an incomplete tail
        nlines = rng.choice([0, 1, 1, 1, 2, 3]) if style > 0.1 else 0
        payload = bytearray()
        for _ in range(nlines):
            payload += bytes(rng.randrange(97, 123) for _ in range(rng.randint(0, 5))) + b"\n"
        if rng.random() < 0.3:
            payload += bytes(rng.randrange(97, 123) for _ in range(rng.randint(1, 3)))
        pos = 0
        while pos < len(payload):
            while rng.random() < p_block:
                sock.append([rng.choice(blocks), 0, rng.choice([0, 0, 0, 1, 2])])
            mode = rng.random()
            k = 1 if mode < 0.4 else rng.randint(1, bufsize) if mode < 0.7 else bufsize
            piece = bytes(payload[pos:pos + k])
            pos += len(piece)
            sock.append(["data", piece.hex(), rng.choice([0, 0, 0, 1])])
        r = rng.random()
        if allow_end and r < 0.06:
            sock.append(["data", "-", 0])
        elif allow_end and r < 0.09:
            sock.append(["reset", 0, 0])
        elif allow_end and flavour == "tls" and r < 0.11:
            sock.append(["zeroret", 0, 0])
        else:
            for _ in range(rng.randint(0, 4)):
                sock.append([rng.choice(blocks), 0, rng.choice([0, 0, 1])])
    nblocks = sum(1 for e in sock if e[0] in env.BLOCK_KINDS)
    unbounded = T is None and ri is None
    sel = []
    if not unbounded and rng.random() < 0.15:
        # the descriptor never signals the awaited condition: only the bounded waits (retry_interval / rest of the budget) end
        return sock, [["never", rng.choice([0, 0, 0, 1])] for _ in range(nblocks + 2)]
    for _ in range(nblocks + 2):
        if rng.random() < (0.97 if unbounded else 0.6):
            sel.append(["ready", rng.choice([0, 0, 1, 1, 2, 3, 5])])
        else:
            sel.append(["expired", rng.choice([0, 0, 0, 1, 2])])
    return sock, sel


def gen_lock(rng):
    return ["free"] if rng.random() < 0.6 else ["busy", rng.choice([0, 1, 2, 3, 5, 9])]


def gen_locks(rng) -> dict:
    """lock of the call's direction + (half of the time) another thread busy in the OTHER direction for d ticks"""
    out = {"lock": gen_lock(rng)}
    if rng.random() < 0.5:
        out["olock"] = ["busy", rng.choice([1, 2, 3, 5, 9, 50])]
    return out


def generate(rng, tier: str, boost: int):
    n = (5000 if tier == "quick" else 40000) * boost
    if boost > 1:
        n = min(n, 60000)   # escalated failing-input search: keep it around a minute
    for _ in range(n):
        r = rng.random()
        ri = rng.choice([None, None, 1, 2, 3])
        no_budget = ri is not None and rng.random() < 0.15     # no time budget x finite retry interval (the clients' default)
        if r < 0.12:
            dclient = rng.random() < 0.5
            # UDPNetworkClient reads with max_datagram_size = MAX_DATAGRAM_BUFSIZE
            cfg = _cfg(kind="dgram", layer="client", bufsize=65536, ri=ri) if dclient else _cfg(kind="dgram", bufsize=64, ri=ri)
            ops = []
            for _ in range(rng.randint(1, 4)):
                T = None if no_budget else rng.choice([None, 0, 1, 2, 3, 5, 8])
                if rng.random() < 0.7:
                    sock, sel = gen_recv_script(rng, "plain", 64, T, ri, [], dgram=True)
                    ops.append({"op": "recv", "T": T, "sock": sock, "sel": sel})
                    if dclient:
                        ops[-1].update(gen_locks(rng))
                else:
                    sock = [[rng.choice(["eagain", "eintr"]), 0, rng.choice([0, 0, 1])] for _ in range(rng.randint(0, 3))]
                    sock += [["sent", 99, 0]] + [["eagain", 0, 0]] * 2
                    unb = T is None and ri is None
                    sel = [["ready", rng.choice([0, 1, 2, 4])] if rng.random() < (0.97 if unb else 0.6) else ["expired", rng.choice([0, 1])]
                           for _ in range(len(sock))]
                    if not unb and rng.random() < 0.15:
                        sel = [["never", 0] for _ in sock]
                    ops.append({"op": "send", "T": T, "data": "6162", "sock": sock, "sel": sel})
                    if dclient:
                        ops[-1].update(gen_locks(rng))
            yield {"cfg": cfg, "ops": ops}
            continue
        layer = "client" if r < 0.45 else "endpoint"
        flavour = rng.choice(["plain", "plain", "tls"])
        path = rng.choice(["copy", "copy", "copy", "buffered", "buffered", "bufhead"])
        bufsize = rng.choice([1, 2, 3, 4, 8, 64])
        if path == "bufhead":
            bufsize = s11.VIEW          # the write view of that protocol has a fixed size (the reads are asked for exactly that)
        cfg = _cfg(layer=layer, flavour=flavour, path=path, bufsize=bufsize, ri=ri)
        ops = []
        dead = False
        for _ in range(rng.randint(1, 4)):
            k = rng.random()
            T = None if no_budget else rng.choice([None, 0, 0, 1, 2, 3, 5, 8])
            if k < 0.1:
                ops.append({"op": "tick", "p": rng.randint(1, 5)})
            elif k < 0.2:
                from props import c04

                sock, sel = c04.gen_scripts(rng, "sendmsg" if flavour == "plain" else "tls", 4, T, ri)
                op = {"op": "send", "T": T, "data": bytes(rng.randrange(97, 123) for _ in range(rng.randint(0, 3))).hex(),
                      "sock": [e for e in sock if e[0] not in ("reset", "pipe", "zeroret")] + [["sent", 99, 0]] * 8, "sel": sel + [["ready", 0]] * 2}
                if layer == "client":
                    op.update(gen_locks(rng))
                ops.append(op)
            elif k < 0.4 and layer == "client":
                nexts = []
                T_it = T if no_budget else rng.choice([0, 1, 2, 3, 5, 8, 13, None])
                for _ in range(rng.randint(1, 4)):
                    sock, sel = gen_recv_script(rng, flavour, bufsize, T_it, ri, [], allow_end=False)
                    nexts.append({"gap": rng.choice([0, 0, 1, 3]), **gen_locks(rng),
                                  "sock": sock + _pad_recv(bufsize), "sel": sel})
                ops.append({"op": "iter", "T": T_it, "nexts": nexts})
            else:
                sock, sel = gen_recv_script(rng, flavour, bufsize, T, ri, [], allow_end=not dead)
                op = {"op": "recv", "T": T, "sock": sock + _pad_recv(bufsize), "sel": sel}
                if layer == "client":
                    op.update(gen_locks(rng))
                ops.append(op)
        if path == "bufhead" and rng.random() < 0.5:
            # a burst that needs several FULL reads of the small view, zero or spent budget: the loop must go on without waiting
            line = bytes(rng.randrange(97, 123) for _ in range(rng.randint(9, 55))) + b"\n"
            v = s11.VIEW
            op = {"op": "recv", "T": rng.choice([0, 0, 1, 3]), "sock": [["data", line[i:i + v].hex(), 0] for i in range(0, len(line), v)] + _pad_recv(v),
                  "sel": [["ready", 0]] * 3}
            if layer == "client":
                op.update(gen_locks(rng))
            ops.append(op)
        yield {"cfg": cfg, "ops": ops}
    try:
        from vlib import c11_async
    except ImportError:
        return
    yield from c11_async.generate(rng, tier, boost)


def extra_coverage(stats) -> dict:
    return {"oracle_only": "the asynchronous iterator (AsyncClientRecvIterator) is judged by the oracle only (no Lean model run)"}
