"""
C08 — TLS transport is a transparent, encrypted byte stream.

real run : kind "script"   the real AsyncTLSStreamTransport (made by its own wrap()) around a scripted SSL engine standing in
                           for ssl.SSLObject, over an in-memory transport with PRNG fragmentation / suspensions / injected
                           OSError; a reader task and one or two writer tasks on the virtual-time loop;
           kind "session"  the same transport around a real ssl.SSLObject (recording proxy), talking through a re-fragmenting
                           in-memory pipe to an independent stdlib-ssl peer (or a second AsyncTLSStreamTransport), both
                           directions active;
           kind "duplex"   two real AsyncTLSStreamTransport endpoints (real OpenSSL) joined by BOUNDED in-memory pipes
                           (1 KiB … 64 KiB per direction; the wrapped transport's send_all suspends while the pipe is full),
                           one reader and one or two sender tasks per side, all active at once, volumes around and well above
                           the capacity: full-duplex bulk transfer under backpressure (vlib/c08_duplex.py);
           kind "multi"    SEVERAL AsyncTLSStreamTransport objects in ONE event loop over the REAL asyncio stream adapter
                           (AsyncIOBackend().wrap_stream_socket on socketpair ends): both ends of a connection in-process
                           and / or 2 … 4 connections at once; readers parked first, then all the writers send in the same
                           loop turn (also writers-first / staggered), 1 B … several records, recv and recv_into,
                           TLS 1.3 / 1.2; each end must read exactly what its own peer wrote (vlib/c08_multi.py);
           kind "bulk"     ONE big write call (ciphertext around / above the transport's 256 KiB staging areas: k x 262144 +- a
                           byte / a record, 400 KiB, 512 KiB+, 1 MB; or one send_all_from_iterable of thousands of chunks),
                           then the writer goes IDLE while its side's reader is already parked and the peer answers only after
                           it has read everything; COARSE in-memory transports that hand over everything they have up to the
                           caller's buffer size (a read can fill the 256 KiB buffer exactly, then silence); peer = stdlib
                           SSLObject or a second library transport (vlib/c08_bulk.py, oracle only);
           kind "cancel"   histories WITH CANCELLATIONS (vlib/c08_cancel.py, oracle only): tasks of the library side are cancelled
                           (task.cancel / backend.timeout / move_on_after, at a chosen loop turn) while they wait for the SEND
                           lock behind a sender parked under back-pressure (a second send_all; a recv that must flush first),
                           for the RECEIVE lock, or inside the wrapped recv_into; then the history goes on: traffic both ways,
                           TLS 1.3 post-handshake authentication (the engine produces output WHILE READING that must be
                           flushed before the peer can answer), aclose(); a cancelled lock waiter must leave nothing behind;
           "lend": true    (duplex, session, bulk) the in-memory wrapped transports keep the buffer given to recv_into across a
                           suspension and fill it from a loop callback one iteration before the reader resumes (what the
                           asyncio adapter does), so that two deliveries land before either reader has looked;
           kind "blocking" SSLStreamTransport over a socketpair, relay thread re-fragmenting, stdlib SSLSocket peer
                           (option bigcert: a 46 KiB certificate over a tiny SO_SNDBUF, retry_interval inf / small: one
                           do_handshake() wants read, then write, then read again).
           kind "retry"    SSLStreamTransport over a scripted SSL socket + scripted selector (vlib/c08_retry.py, oracle only):
                           operations whose wanted direction flips between two attempts of ONE _retry() call.
model run: script and session cases: the recorded engine answers + the observed schedule go to the Lean wrapper machine
           (endriver `tls08`), whose predicted actions (ssl calls with their arguments, lock traffic, send_all sizes and
           provenance, recv_into calls, results, final BIO state) must equal the observed ones.  blocking: decision
           table only.  multi: no model run (oracle only: several endpoints, the real selector transport).
oracle   : plaintext delivered == plaintext written, in order, both directions (engine level for scripted cases, peer level for
           real sessions); nothing but bytes that came out of the outgoing BIO reaches the wrapped transport (and no 8-byte
           window of plaintext occurs in them); no overlapping send_all / recv_into on the wrapped transport; no deadlock;
           no exception other than the documented ones; when a write call has returned and no other write call of that
           side is in progress the outgoing BIO and the backlog are empty (bulk, duplex, session; cancel: only while no
           write call has been cancelled and no post-handshake exchange has put bytes of its own into the BIO);
           cancel: after any cancellation of a lock waiter every later transfer, the post-handshake authentication and
           aclose()'s closing exchange complete (exact hang detection on the virtual loop), the peer reads the send_all
           calls in call order (a cancelled call entirely or not at all) and a clean end of stream.
"""
from __future__ import annotations

import os
from typing import Any

from vlib import c08_run as R
from vlib import core

ID = "C08"
CLAIMED = True
TITLE = "TLS transport is a transparent, encrypted byte stream"
REQUIRED_THEOREMS = ["C08_write_exactly_once", "C08_provenance", "C08_conduit", "C08_transparent",
                     "C08_transparent_quiescent", "C08_locks_exclusive", "C08_no_deadlock_partial",
                     "C08_reader_needs_no_send_lock_when_nothing_pending", "C08_duplex_progress",
                     "C08_lockalways_deadlock", "C08_fix1_residual_deadlock"]
LEVEL_TEXT = (
    "Machine-checked proof (Lean 4) about a statement-level model of AsyncTLSStreamTransport's wrapper logic around an "
    "abstract SSL engine: for every engine behaviour, every event schedule of any number of tasks and every fragmentation, "
    "the bytes accepted by ssl.write followed by the backlog are exactly the bytes written (nothing dropped or duplicated "
    "on a retry), only bytes that came out of the outgoing BIO reach the wrapped transport, the two transport locks are "
    "exclusive, ciphertext is fed in the order taken and output flushed before any wait for input (by the task itself or by "
    "a task already queued on the send lock), a task that needs ciphertext input never waits for the send lock unless it "
    "is first in its queue with bytes of its own to flush (full-duplex progress; the two earlier versions of that branch "
    "are shown to deadlock on a closed two-endpoint system with bounded pipes); under the record-layer "
    "laws TlsLaws the plaintext read on one side is a prefix of, and at quiescence equal to, the plaintext written on the "
    "other; plus differential correspondence of that model against the real transport driven by a scripted engine and by "
    "real OpenSSL sessions (trace replay, incl. full-duplex bulk transfers between two real endpoints over bounded pipes "
    "with exact deadlock detection on a virtual-time loop), plus an end-to-end plaintext/provenance/deadlock oracle, "
    "also over several TLS transports sharing one event loop on the real asyncio stream adapter (oracle only)."
)
LEVEL_NOTE = (
    "Trusted: Lean kernel; axioms propext, Quot.sound, Classical.choice only. The hand model (EasyNet/Model/Tls08.lean) is "
    "tied to the code by the sampled correspondence check. OpenSSL's cryptography and record layer are outside the model: "
    "they enter as the hypothesis TlsLaws (validated on every recorded real trace), and 'encrypted' is established only as "
    "'came out of the outgoing BIO' plus the negative substring test. Liveness is proved as absence of wrapper-level "
    "deadlock, flush-before-wait and absence of the reader -> send-lock-owner wait edge for all schedules "
    "(C08_no_deadlock_partial, C08_duplex_progress); termination of a whole session under fair "
    "delivery is exercised by the real sessions on the virtual-time loop (hang detection), not proved. Cancellation and "
    "aclose/unwrap are not part of this model (C10, C09, C14). The blocking SSLStreamTransport is covered by its decision "
    "tables (shared with C04/C11) and an input/output oracle over a socketpair."
)
TECHNIQUE = ("Lean 4 theorems (inductive invariants over the wrapper step machine, for all engines and schedules; refinement "
             "chain under TlsLaws) + model/code differential correspondence (scripted engine and real OpenSSL trace replay) "
             "+ end-to-end oracle on the real code")
TRUSTED_BASE = [
    "Lean 4.33.0 kernel; axioms allowed: propext, Classical.choice, Quot.sound",
    "hand-written model EasyNet/Model/Tls08.lean of lowlevel/api_async/transports/tls.py (AsyncTLSStreamTransport, "
    "_IncomingDataReader) and of asyncio.Lock's FIFO hand-over, tied by this check (sampled)",
    "harness: virtual-time loop, in-memory transports, scripted engine, recording proxy around ssl.SSLObject "
    "(reads the outgoing BIO back and restores it), bounded in-memory pipes with backpressure (vlib/c08_duplex.py), "
    "canonicaliser, endriver line parser",
    "OpenSSL / ssl via TlsLaws (whole records, plaintext carried = plaintext accepted, read yields iff a complete record "
    "is available): validated on the recorded traces of every real session, not proved",
    "multi kind: AF_UNIX socketpairs + asyncio's selector transport + the library's own asyncio stream adapter below the "
    "TLS transports, single thread; the virtual-time loop polls the selector before it concludes that nothing can run "
    "(vlib/c08_multi.py)",
]
ASSUMPTIONS = [
    "ssl.write never returns 0 for a non-empty view (the Python loop would spin; the model reports `spin`)",
    "no cancellation and no aclose() in the MODEL (C10 / C09 / C14); cancel kind (oracle only): only tasks parked on one of the "
    "two locks, in the wrapped recv_into or not yet started are cancelled (a send_all cancelled inside the wrapped send_all "
    "breaks the stream by contract); a cancelled send_all may be delivered entirely or not at all; at most one task of an "
    "endpoint is in the WANT_READ branch when data arrives unless the readers are restarted afterwards (docs/C08.md, "
    "observations 2 and 3: two known residuals of the unchanged library are kept out of the generated region)",
    "TlsLaws for the transparency theorem; one reader task per direction for the end-to-end statement",
    "blocking variant: real threads, judged on inputs/outputs only; a harness-side timeout is an infrastructure error",
    "bulk kind: oracle only (no model run); the exact-size cases rely on the per-record overhead of the running OpenSSL, "
    "probed once per TLS version (the cases themselves hold plain byte counts)",
    "multi kind (real sockets): judged on bytes / errors only, no model run; a stuck session is a result only when a second "
    "run of the same case fails too, otherwise (and for the wall-clock guard) an infrastructure error",
]
RULE = (
    "script case = handshake/read/write answer scripts (ok with partial counts, WANT_READ, WANT_WRITE, ZeroReturn, EOF, "
    "error; bytes consumed from / appended to the BIOs) x reader ops (recv, recv_into) x writer ops (send_all, non-byte "
    "views, send_all_from_iterable with empty chunks, optional second writer) x transport fragmentation, suspensions and "
    "OSError injection; session case = role x peer kind x TLS version x write sizes (0 B … 3 records) both ways x "
    "fragment sizes (1 B … 64 KiB) x delays; duplex case = pipe capacity (1 KiB … 64 KiB per direction) x 1 or 2 sender "
    "tasks per side x volumes around and up to 5x the capacity (or small on one side) x task creation order x start "
    "delays x recv buffer sizes x fragment / copy-step sizes x TLS version x role x optional request/response gating "
    "x recv_into buffer copied at once / lent across a suspension and filled from a loop callback; multi case = 1 … 4 "
    "socketpair connections in one loop over the real asyncio adapter (each: both ends the library, or library + stdlib "
    "peer) x handshakes together / sequential x rounds (order readers-first / writers-first / staggered x recv / "
    "recv_into x message sizes 1 B … 3 records per direction and connection) x TLS version x role x socket send buffer; "
    "bulk case = 1 … 3 request/response or simultaneous steps x ONE write call per writer (send_all / "
    "send_all_from_iterable) with ciphertext exactly / around k x 256 KiB, up to 1 MB, or thousands of one-record chunks x "
    "peer (stdlib SSLObject / second library transport) x coarse pipes (unbounded / 64 KiB / exactly 256 KiB / 1 MiB; reads "
    "up to the caller's buffer or capped at 256 KiB, 256 KiB - 1, 100000; buffer copied / lent) x readers-first / "
    "writers-first x recv / recv_into sizes x TLS version x role; "
    "cancel case = 1 … 3 episodes (send-lock waiters behind a sender under back-pressure: second send_all / recv that must "
    "flush / the send_all carrying a post-handshake-auth request; receive-lock waiters behind a parked reader; a reader "
    "cancelled in the middle of a fragmented record; full duplex) x victims cancelled by task.cancel / backend.timeout / "
    "move_on_after x 0 … 5 loop turns after they started or after the back-pressure is released, or once everything is "
    "parked x post-handshake authentication (TLS 1.3, either role, with or without application data, 0 / 2 session "
    "tickets) before, between or after the cancellations x further traffic both ways x aclose() x pipe capacity x "
    "fragment size x peer (stdlib SSLObject / second library transport) x TLS version x role; "
    "non-trivial = a retried write after WANT_*, a partial write, a task parked on "
    "a transport lock, a read that had to wait, a multi-step handshake, or a real session; distinct by case digest"
)

_law_problems: list[str] = []


# ----------------------------------------------------------------------------------------------
def run_real(case: dict) -> list[str]:
    kind = case.get("kind", "script")
    if kind == "script":
        return R.run_script(case)
    if kind == "session":
        lines = R.run_session(case)
        for ln in lines:
            if ln.startswith("o.law ") and len(_law_problems) < 20:
                _law_problems.append(f"TlsLaws violated on a recorded OpenSSL trace (seed {case.get('seed')}): {ln[6:]}")
        return lines
    if kind == "duplex":
        from vlib import c08_duplex as D
        lines = D.run_duplex(case)
        for ln in lines:
            if ln.startswith("o.law ") and len(_law_problems) < 20:
                _law_problems.append(f"TlsLaws violated on a recorded OpenSSL trace (duplex seed {case.get('seed')}): {ln[6:]}")
        return lines
    if kind == "blocking":
        from vlib import c08_blocking as B
        return B.run_blocking(case)
    if kind == "multi":
        from vlib import c08_multi as M
        return M.run_multi(case)
    if kind == "bulk":
        from vlib import c08_bulk as K
        return K.run_bulk(case)
    if kind == "cancel":
        from vlib import c08_cancel as X
        return X.run_cancel(case)
    if kind == "retry":
        from vlib import c08_retry as T
        return T.run_retry(case)
    return [f"harness-exc unknown kind {kind}"]


_SKIP = ("op ", "eng ", "o.", "unhandled")


def real_for_diff(case: dict, real: list[str]) -> list[str]:
    if case.get("kind", "script") == "blocking":
        return [ln for ln in real if ln.startswith("try ")]
    return [ln for ln in real if not ln.startswith(_SKIP)]


def model_input(case: dict, real: list[str]):
    if case.get("kind", "script") in ("multi", "bulk", "cancel", "retry"):
        return None                             # oracle only
    if case.get("kind", "script") == "blocking":
        ops = [ln.split(" -> ")[0] for ln in real if ln.startswith("try ")]
        return ("tls08blk", ops) if ops else None
    if any(ln.startswith(("deadlock", "harness-exc", "lock-cancelled")) or ln.endswith("raise cancelled") for ln in real):
        return None
    ops = [ln for ln in real if ln.startswith("eng ")] + [ln[3:] for ln in real if ln.startswith("op ")]
    # VERIF_C08_VARIANT=pop | lockalways selects a deliberately different model (to see that the correspondence can fail)
    variant = os.environ.get("VERIF_C08_VARIANT", "")
    return f"tls08 {int(bool(case.get('compat', True)))}" + (f" {variant}" if variant else ""), ops




def _kv(line: str) -> dict[str, str]:
    return dict(w.split("=", 1) for w in line.split() if "=" in w)


def oracle(case: dict, real: list[str]) -> str | None:
    kind = case.get("kind", "script")
    if kind == "cancel":
        from vlib import c08_cancel as X
        return X.problem(case, real)
    if kind == "retry":
        from vlib import c08_retry as T
        return T.problem(case, real)
    for ln in real:
        if ln.startswith(("harness-exc", "unhandled")):
            return ln
        if ln.startswith("deadlock"):
            return "deadlock: tasks are waiting and nothing can wake them (" + ln + ")"
    if kind == "blocking":
        for ln in real:
            if ln.startswith("viol "):
                return ln[5:]
        return None
    if kind == "multi":
        from vlib import c08_multi as M
        return M.problem(case, real)
    if kind == "bulk":
        from vlib import c08_bulk as K
        return K.problem(case, real)
    if kind == "cancel":
        from vlib import c08_cancel as X
        return X.problem(case, real)
    o = {ln.split()[0]: ln for ln in real if ln.startswith("o.")}
    if "o.left-behind" in o:
        # generalised completion clause: once a write call has returned and no other write call of that side is in progress,
        # nothing of it is left in the outgoing BIO / the backlog (nobody would send it while the side stays idle)
        return ("a write call returned although ciphertext / chunks of it were left in the outgoing BIO / backlog and no other "
                "write call of that side was in progress: " + o["o.left-behind"].split(None, 1)[1])
    # an operation may fail only when the SSL engine reported an error / EOF / close, or the wrapped transport raised or ended
    env_failed = any((ln.startswith("eng ") and ln.split()[2] in ("zeroreturn", "eoferror", "error"))
                     or (ln.startswith("op resume ") and ln.split()[3] in ("err", "eof")) for ln in real)
    if not env_failed:
        for ln in real:
            if ln.startswith("ret ") and " raise " in ln:
                return f"an operation failed although neither the SSL engine nor the wrapped transport reported an error: {ln}"
    if "o.overlap" in o and o["o.overlap"].split()[1] != "-":
        return "two calls of the wrapped transport's " + o["o.overlap"].split()[1] + " were in flight at the same time"
    if "o.wire-is-bio" in o and o["o.wire-is-bio"].split()[1] != "1":
        return "bytes handed to the wrapped transport are not the bytes that came out of the outgoing BIO, in order, each once"
    if kind == "script":
        if "o.written" not in o:
            return None if any(ln.startswith("ret 0 raise") for ln in real) else "no oracle data"
        val = {k: (b"" if o[k].split()[1] == "-" else bytes.fromhex(o[k].split()[1])) for k in
               ("o.written", "o.accepted", "o.handed", "o.returned")}
        if o["o.wire-has-plain"].split()[1] != "0":
            return "plaintext bytes reached the wrapped transport"
        if not val["o.written"].startswith(val["o.accepted"]):
            return (f"bytes accepted by ssl.write {core.hexs(val['o.accepted'])} are not a prefix of the bytes written "
                    f"{core.hexs(val['o.written'])} (dropped, duplicated or reordered)")
        marks = o["o.marks"].split()[1]
        if marks != "-":
            for item in marks.split(","):
                t, m, a = item.split(":")
                if int(a) < int(m):
                    return (f"send call of task {t} returned normally although only {a} of the {m} bytes written up to it "
                            "had been accepted by ssl.write")
        sends_ok = not any(ln.startswith(("ret 2 raise", "ret 3 raise")) for ln in real)
        hs_ok = any(ln == "ret 0 hs-ok" for ln in real)
        if hs_ok and sends_ok and val["o.accepted"] != val["o.written"]:
            return (f"every send call returned normally but ssl.write accepted {core.hexs(val['o.accepted'])}, "
                    f"written {core.hexs(val['o.written'])}")
        if val["o.returned"] != val["o.handed"]:
            return (f"plaintext returned by recv/recv_into {core.hexs(val['o.returned'])} != plaintext ssl.read produced "
                    f"{core.hexs(val['o.handed'])}")
        if o["o.fed-is-taken"].split()[1] != "1":
            return "ciphertext written to the incoming BIO is not the ciphertext taken from the wrapped transport, in order"
        return None
    if kind == "duplex":
        if "o.hs-error" in o:
            return "the handshake did not complete: " + o["o.hs-error"].split(None, 1)[1]
        if "o.task-error" in o:
            return "a transfer failed although nothing reported an error: " + o["o.task-error"].split(None, 1)[1]
        for k, what in (("o.a2b", "written on side a, read on side b"), ("o.b2a", "written on side b, read on side a")):
            if k not in o:
                return "no oracle data"
            kv = _kv(o[k])
            if kv["written"] != kv["received"]:
                return f"plaintext {what}: received {kv['received']} != written {kv['written']} (prefix={kv['prefix']})"
        if o.get("o.leak", "o.leak -").split()[1] != "-":
            return "plaintext occurs verbatim in the bytes handed to the wrapped transport (offset " + o["o.leak"].split()[1] + ")"
        if "o.accepted-prefix" in o and o["o.accepted-prefix"].split()[1] != "1":
            return "bytes accepted by ssl.write are not a prefix of the bytes written"
        return None
    # ---- real session
    if "o.hs-error" in o:
        return "the handshake did not complete: " + o["o.hs-error"].split(None, 1)[1]
    for k in ("o.a_read_error", "o.a_write_error", "o.peer-error"):
        if k in o:
            return f"{k[2:]}: {o[k].split(None, 1)[1]}"
    for k, what in (("o.a2b", "written by the transport, read by the peer"), ("o.b2a", "written by the peer, read from the transport")):
        if k not in o:
            return "no oracle data"
        kv = _kv(o[k])
        if kv["written"] != kv["received"]:
            return f"plaintext {what}: received {kv['received']} != written {kv['written']} (prefix={kv['prefix']})"
    if o.get("o.leak", "o.leak -").split()[1] != "-":
        return "plaintext occurs verbatim in the bytes handed to the wrapped transport (offset " + o["o.leak"].split()[1] + ")"
    if "o.accepted-prefix" in o and o["o.accepted-prefix"].split()[1] != "1":
        return "bytes accepted by ssl.write are not a prefix of the bytes written"
    return None


def tie_problems(stats) -> list[str]:
    return list(_law_problems[:5])


def nontrivial(case: dict, real: list[str]) -> str | None:
    kind = case.get("kind", "script")
    if kind == "session":
        return f"session/{case.get('role', 'client')}/{case.get('peer', 'raw')}/{case.get('ver', '1.3')}"
    if kind == "blocking":
        big = f"/bigcert/ri-{'inf' if case.get('retry_interval') == 'inf' else 'fin'}" if case.get("bigcert") else ""
        return "blocking/" + case.get("role", "client") + big
    if kind == "retry":
        from vlib import c08_retry as T
        return T.class_key(case, real)
    if kind == "multi":
        conns = case.get("conns") or []
        nlib = sum(2 if c.get("peer", "easynet") == "easynet" else 1 for c in conns)
        orders = sorted({rd.get("order", "readers-first") for rd in case.get("rounds") or []})
        return f"multi/{len(conns)}conn/{nlib}tls/{case.get('ver', '1.3')}/{'+'.join(orders) or 'hs-only'}"
    if kind == "bulk":
        steps = case.get("steps") or []
        big = max((sum(n + 22 * -(-n // 16384) for n in ([w[1]] if w[0] == "send" else w[1]))   # ~ ciphertext of ONE call
                   for st in steps for x in ("a", "b") for w in (st.get(x) or [])), default=0)
        firsts = "+".join(sorted({st.get("first", "a") for st in steps})) or "none"
        size = "3x+" if big > 3 * 262144 else "2x+" if big > 2 * 262144 else "1x+" if big > 262144 - 400 else "below"
        return (f"bulk/{case.get('peer', 'raw')}/{case.get('ver', '1.3')}/{size}/{firsts}"
                f"{'/bounded' if case.get('cap') else ''}{'/lent' if case.get('lend') else ''}")
    if kind == "cancel":
        from vlib import c08_cancel as X
        return X.class_key(case, real)
    if kind == "duplex":
        bp = next((_kv(ln) for ln in real if ln.startswith("o.backpressure ")), None)
        both = bp is not None and int(bp["a2b"]) > 0 and int(bp["b2a"]) > 0
        one = bp is not None and (int(bp["a2b"]) > 0 or int(bp["b2a"]) > 0)
        ns = f"{len(case.get('a_send') or [])}x{len(case.get('b_send') or [])}"
        return (f"duplex/{'backpressure-both' if both else 'backpressure-one' if one else 'no-backpressure'}/{ns}/"
                f"{case.get('order', 'readers-first')}{'/lent' if case.get('lend') else ''}")
    flags = []
    blocked: set[str] = set()
    for ln in real:
        w = ln.split()
        if w[0] == "ssl" and w[2] == "write":
            if "-> wantread" in ln or "-> wantwrite" in ln:
                blocked.add(w[1])
            elif w[1] in blocked and "write-retry" not in flags:
                flags.append("write-retry")
            if "-> ok" in ln:
                n = int(ln.split("-> ok ")[1].split()[0])
                size = w[3]
                ln_size = 0 if size == "-" else (int(size.split(":")[0]) if ":" in size else len(size) // 2)
                if 0 < n < ln_size and "partial-write" not in flags:
                    flags.append("partial-write")
        elif w[0] == "park" and "park" not in flags:
            flags.append("park")
        elif w[0] == "ssl" and w[2] == "read" and "-> wantread" in ln and "read-wait" not in flags:
            flags.append("read-wait")
        elif w[0] == "ssl" and w[2] == "hs" and "-> want" in ln and "hs-steps" not in flags:
            flags.append("hs-steps")
    return "script/" + "+".join(sorted(flags)) if flags else None


def _bulk_total(writes: list) -> int:
    return sum((w[1] if w[0] == "send" else sum(w[1])) for w in writes)


def _shrink_bulk(case: dict):
    steps = case.get("steps") or []
    for i in range(len(steps)):                                 # drop a step
        yield {**case, "steps": steps[:i] + steps[i + 1:]}
    for key in ("lend", "cap", "rbuf"):
        if case.get(key):
            yield {k: v for k, v in case.items() if k != key}
    if case.get("peer", "raw") != "raw":
        yield {**case, "peer": "raw"}
    if case.get("ver", "1.3") != "1.3":
        yield {**case, "ver": "1.3"}
    if case.get("role", "client") != "client":
        yield {**case, "role": "client"}
    for i, st in enumerate(steps):
        def put(new: dict, i=i) -> dict:
            return {**case, "steps": steps[:i] + [new] + steps[i + 1:]}
        for key in ("order", "park", "a_recv", "b_recv"):
            if key in st:
                yield put({k: v for k, v in st.items() if k != key})
        if st.get("first", "a") == "both":
            yield put({**st, "first": "a"})
            yield put({**st, "first": "b"})
        for side in ("a", "b"):
            ws = list(st.get(side) or [])
            for j, w in enumerate(ws):
                if len(ws) > 1:                                 # drop a writer
                    yield put({**st, side: ws[:j] + ws[j + 1:]})
                if w[0] == "senditer":
                    ch = list(w[1])
                    if len(ch) > 1:
                        yield put({**st, side: ws[:j] + [["send", sum(ch)]] + ws[j + 1:]})
                        yield put({**st, side: ws[:j] + [["senditer", ch[:len(ch) // 2]]] + ws[j + 1:]})
                        yield put({**st, side: ws[:j] + [["senditer", ch[len(ch) // 2:]]] + ws[j + 1:]})
                else:
                    n = w[1]
                    for m in (32, n // 2, n - 16384, n - 1):
                        if 0 < m < n:
                            yield put({**st, side: ws[:j] + [["send", m]] + ws[j + 1:]})


def shrink(case: dict):
    kind = case.get("kind", "script")
    if kind == "bulk":
        if "note" in case:
            case = {k: v for k, v in case.items() if k != "note"}
            yield case
        yield from _shrink_bulk(case)
        return
    if "note" in case:                       # the comment of a corpus case does not describe its shrunk descendants
        case = {k: v for k, v in case.items() if k != "note"}
        yield case
    if kind == "cancel":
        from vlib import c08_cancel as X
        yield from X.shrink_cancel(case)
        return
    if kind == "retry":
        from vlib import c08_retry as T
        yield from T.shrink_retry(case)
        return
    if kind == "script":
        for key in ("writer2", "reader", "writer", "reads", "writes", "hs"):
            lst = case.get(key) or []
            for i in range(len(lst)):
                yield {**case, key: lst[:i] + lst[i + 1:]}
        net = case.get("net") or {}
        for key in ("rpause", "spause", "frags"):
            if net.get(key):
                yield {**case, "net": {**net, key: []}}
        for key in ("recv_err_at", "send_err_at"):
            if net.get(key):
                yield {**case, "net": {**net, key: 0}}
        if case.get("start"):
            yield {**case, "start": {}}
        for key in ("writer", "writer2"):
            lst = case.get(key) or []
            for i, op in enumerate(lst):
                if op[0] == "senditer" and len(op[1]) > 1:
                    for j in range(len(op[1])):
                        yield {**case, key: lst[:i] + [["senditer", op[1][:j] + op[1][j + 1:]]] + lst[i + 1:]}
    elif kind == "session":
        if case.get("lend"):
            yield {k: v for k, v in case.items() if k != "lend"}
        for key in ("a2b", "b2a"):
            lst = case.get(key) or []
            for i in range(len(lst)):
                yield {**case, key: lst[:i] + lst[i + 1:]}
        net = case.get("net") or {}
        for key in ("a_frags", "b_frags", "a_rpause", "a_spause", "b_rpause", "b_spause", "b_wpause"):
            if net.get(key):
                yield {**case, "net": {**net, key: []}}
        if case.get("peer") == "easynet":
            yield {**case, "peer": "raw"}
        for i, op in enumerate(case.get("a2b") or []):
            if op[0] == "send" and op[1] > 16:
                yield {**case, "a2b": case["a2b"][:i] + [["send", 16]] + case["a2b"][i + 1:]}
        for i, n in enumerate(case.get("b2a") or []):
            if n > 16:
                yield {**case, "b2a": case["b2a"][:i] + [16] + case["b2a"][i + 1:]}
    elif kind == "multi":
        conns = case.get("conns") or []
        rounds = case.get("rounds") or []
        for i in range(len(rounds)):                            # drop a round
            yield {**case, "rounds": rounds[:i] + rounds[i + 1:]}
        if len(conns) > 1:                                      # drop a connection
            for i in range(len(conns)):
                yield {**case, "conns": conns[:i] + conns[i + 1:],
                       "rounds": [{**rd, "sizes": (rd.get("sizes") or [])[:i] + (rd.get("sizes") or [])[i + 1:]} for rd in rounds]}
        for i, c in enumerate(conns):                           # an independent peer instead of a second library end
            if c.get("peer", "easynet") == "easynet" and len(conns) > 1:
                yield {**case, "conns": conns[:i] + [{**c, "peer": "raw"}] + conns[i + 1:]}
        for key in ("sndbuf",):
            if case.get(key):
                yield {k: v for k, v in case.items() if k != key}
        if case.get("hs", "together") != "together":
            yield {**case, "hs": "together"}
        if case.get("ver", "1.3") != "1.3":
            yield {**case, "ver": "1.3"}
        for i, c in enumerate(conns):
            if c.get("role", "client") != "client":
                yield {**case, "conns": conns[:i] + [{**c, "role": "client"}] + conns[i + 1:]}
        for j, rd in enumerate(rounds):
            def put(new_rd: dict, j=j) -> dict:
                return {**case, "rounds": rounds[:j] + [new_rd] + rounds[j + 1:]}
            if rd.get("order", "readers-first") != "readers-first":
                yield put({**rd, "order": "readers-first"})
            if rd.get("op", "recv") != "recv":
                yield put({**rd, "op": "recv"})
            if rd.get("buf", 16384) != 16384:
                yield put({**rd, "buf": 16384})
            for key in ("park", "gap"):
                if key in rd:
                    yield put({k: v for k, v in rd.items() if k != key})
            sizes = [list(x) for x in rd.get("sizes") or []]
            for i, sz in enumerate(sizes):
                for d, n in enumerate(sz):
                    for m in (0, 1, n // 2):
                        if 0 <= m < n:
                            new = [list(x) for x in sizes]
                            new[i][d] = m
                            yield put({**rd, "sizes": new})
    elif kind == "duplex":
        if case.get("lend"):
            yield {k: v for k, v in case.items() if k != "lend"}
        for key in ("a_send", "b_send"):
            tasks = case.get(key) or []
            if len(tasks) > 1:                                  # drop a whole sender task
                for i in range(len(tasks)):
                    yield {**case, key: tasks[:i] + tasks[i + 1:]}
            for i, sizes in enumerate(tasks):                   # drop one send_all of a task
                if len(sizes) > 1:
                    for j in range(len(sizes)):
                        yield {**case, key: tasks[:i] + [sizes[:j] + sizes[j + 1:]] + tasks[i + 1:]}
        for key in ("start", "frag", "chunk", "b_after"):
            if case.get(key):
                yield {k: v for k, v in case.items() if k != key}
        if case.get("order", "readers-first") != "readers-first":
            yield {**case, "order": "readers-first"}
        if case.get("ver", "1.3") != "1.3":
            yield {**case, "ver": "1.3"}
        if case.get("role", "client") != "client":
            yield {**case, "role": "client"}
        if case.get("a_recv") not in (None, ["recv", 16384]):
            yield {**case, "a_recv": ["recv", 16384]}
        if case.get("b_recv") not in (None, 16384):
            yield {**case, "b_recv": 16384}
        cap = int(case.get("cap", 65536))
        for smaller in (1024, cap // 4, cap // 2):              # a smaller pipe with volumes scaled to it
            if 1024 <= smaller < cap:
                f = smaller / cap
                yield {**case, "cap": smaller,
                       "a_send": [[max(1, int(n * f)) for n in t] for t in case.get("a_send") or []],
                       "b_send": [[max(1, int(n * f)) for n in t] for t in case.get("b_send") or []]}
        for key in ("a_send", "b_send"):                        # smaller volumes: twice the capacity, the capacity, halves
            tasks = case.get(key) or []
            for i, sizes in enumerate(tasks):
                for j, n in enumerate(sizes):
                    for m in (2 * cap, cap, n // 2):
                        if 0 < m < n:
                            yield {**case, key: tasks[:i] + [sizes[:j] + [m] + sizes[j + 1:]] + tasks[i + 1:]}


def known_key(case: dict, real: list[str], why: str) -> str:
    kind = case.get("kind", "script")
    if "deadlock" in why:
        return f"kind={kind},deadlock"
    if kind == "cancel" and "aclose()" in why:
        return "kind=cancel,close"
    if "in the outgoing BIO" in why:
        return f"kind={kind},left-behind"
    if "accepted" in why:
        return f"kind={kind},write-path"
    if "wrapped transport" in why:
        return f"kind={kind},provenance"
    if "handshake" in why:
        return f"kind={kind},handshake"
    return f"kind={kind},other:" + why[:40]


# ----------------------------------------------------------------------------------------------
def corpus() -> list[dict]:
    return []      # the hand-written critical cases live in corpus/C08/*.json


_PLAIN = bytes(range(0x21, 0x7f))


class _Src:
    """position-dependent plaintext below 0x80 (so that duplication / reordering is visible)"""

    def __init__(self) -> None:
        self.pos = 0

    def take(self, n: int) -> str:
        b = bytes(_PLAIN[(self.pos + i) % len(_PLAIN)] for i in range(n))
        self.pos += n
        return b.hex()


def _gen_ans(rng, kind: str, style: float) -> list:
    r = rng.random()
    cin = rng.choice([0, 0, 0, 1, 3, 5, 40])
    cout = rng.choice([0, 0, 0, 0, 7, 30]) if kind != "write" else rng.choice([0, 10, 22, 22, 60])
    if kind == "hs":
        if r < 0.45:
            return ["wantread", cin, rng.choice([0, 50, 517])]
        if r < 0.55:
            return ["wantwrite", cin, rng.choice([0, 30])]
        if r < 0.94:
            return ["ok", cin, rng.choice([0, 0, 80])]
        return [rng.choice(["error", "eoferror", "zeroreturn"]), cin, 0]
    if kind == "read":
        if r < 0.40:
            return ["wantread", cin, cout]
        if r < 0.46:
            return ["wantwrite", cin, rng.choice([0, 12])]
        if r < 0.93:
            return ["ok", cin, cout, rng.choice([0, 1, 1, 2, 3, 5, 8, 2000])]
        return [rng.choice(["zeroreturn", "eoferror", "error"]), cin, 0]
    # write
    want = 0.18 + 0.3 * style
    if r < want * 0.6:
        return ["wantread", cin, rng.choice([0, 0, 15])]
    if r < want:
        return ["wantwrite", cin, rng.choice([0, 25])]
    if r < 0.96:
        return ["ok", cin, cout, rng.choice([1, 1, 2, 3, 5, 100, 100, 100])]
    return [rng.choice(["zeroreturn", "eoferror", "error"]), cin, 0]


def _gen_writer(rng, src: _Src, n: int) -> list:
    ops: list = []
    for _ in range(n):
        r = rng.random()
        if r < 0.35:
            ops.append(["send", src.take(rng.choice([0, 1, 2, 3, 5, 8, 13, 30]))])
        elif r < 0.45:
            ops.append(["sendw", src.take(rng.choice([0, 2, 4, 6, 12]))])
        else:
            ops.append(["senditer", [src.take(rng.choice([0, 0, 1, 2, 3, 4, 7, 11])) for _ in range(rng.randint(0, 4))]])
    return ops


def _gen_script(rng) -> dict:
    style = rng.random()
    src = _Src()
    case: dict[str, Any] = {"kind": "script", "compat": rng.random() < 0.7}
    case["hs"] = [_gen_ans(rng, "hs", style) for _ in range(rng.choice([0, 1, 1, 2, 3, 4]))]
    if case["hs"] and case["hs"][-1][0].startswith("want"):
        case["hs"].append(["ok", rng.choice([0, 9]), rng.choice([0, 80])])
    case["reads"] = [_gen_ans(rng, "read", style) for _ in range(rng.randint(0, 8))]
    case["writes"] = [_gen_ans(rng, "write", style) for _ in range(rng.randint(0, 12))]
    case["reader"] = []
    for _ in range(rng.randint(0, 4)):
        if rng.random() < 0.5:
            case["reader"].append(["recv", rng.choice([0, 1, 2, 5, 16, 1024])])
        else:
            case["reader"].append(["recvinto", rng.choice([0, 1, 3, 8, 64])])
    case["writer"] = _gen_writer(rng, src, rng.randint(0, 4))
    if rng.random() < 0.3:
        case["writer2"] = _gen_writer(rng, src, rng.randint(1, 3))
    case["start"] = {k: rng.choice([0, 0, 1, 2, 5]) for k in ("1", "2", "3")}
    net: dict[str, Any] = {"incoming": rng.choice([0, 5, 20, 60, 200]),
                           "frags": [rng.choice([1, 1, 2, 3, 7, 50]) for _ in range(rng.randint(0, 12))],
                           "rpause": [rng.choice([0, 1, 1, 2, 4]) for _ in range(rng.randint(0, 8))],
                           "spause": [rng.choice([0, 1, 1, 2, 4]) for _ in range(rng.randint(0, 8))]}
    if rng.random() < 0.08:
        net["recv_err_at"] = rng.randint(1, 4)
    if rng.random() < 0.08:
        net["send_err_at"] = rng.randint(1, 4)
    case["net"] = net
    return case


_SIZES_SMALL = [0, 1, 2, 7, 100, 1000]
_SIZES_BIG = [0, 1, 100, 5000, 16384, 16385, 20000, 33000, 49152]


def _gen_session(rng, n: int) -> dict:
    small = rng.random() < 0.5          # small volumes go with byte-wise fragmentation
    sizes = _SIZES_SMALL if small else _SIZES_BIG
    a2b: list = []
    for _ in range(rng.randint(0, 5)):
        pause = rng.choice([0, 0, 1, 3, 0.5])
        if rng.random() < 0.5:
            a2b.append(["send", rng.choice(sizes), pause])
        else:
            a2b.append(["senditer", [rng.choice(sizes[:5]) for _ in range(rng.randint(0, 4))], pause])
    b2a = [rng.choice(sizes) for _ in range(rng.randint(0, 5))]
    fr_small = [[1], [1, 2, 3], [2], [5, 1], [7]]
    fr_big = [[100], [1000, 1], [4096], [16384], [65536], [16389, 3], [50000]]
    fr = (fr_small + fr_big[:2]) if small else fr_big
    pauses = [[0], [1], [1, 0, 3], [0.25, 1], [2]]
    case = {"kind": "session", "seed": n, "role": rng.choice(["client", "client", "server"]),
            "peer": rng.choice(["raw", "raw", "easynet"]), "ver": rng.choice(["1.3", "1.3", "1.2"]),
            "tickets": rng.choice([0, 0, 2]), "compat": True, "a2b": a2b, "b2a": b2a,
            "a_reads": rng.choice([[["recv", 16384]], [["recv", 1]], [["recvinto", 100]], [["recv", 3, 1], ["recvinto", 70000]],
                                   [["recv", 65536, 2]]]) if not small or rng.random() < 0.7 else [["recv", 5]],
            "b_reads": rng.choice([[16384], [1, 100], [70000]]),
            "net": {"a_frags": rng.choice(fr), "b_frags": rng.choice(fr), "a_rpause": rng.choice(pauses),
                    "a_spause": rng.choice(pauses), "b_rpause": rng.choice(pauses), "b_spause": rng.choice(pauses),
                    "b_wpause": rng.choice(pauses)}}
    if not small and case["a_reads"] == [["recv", 1]]:
        case["a_reads"] = [["recv", 4096]]
    if rng.random() < (0.6 if case["peer"] == "easynet" else 0.2):
        case["lend"] = True              # the wrapped transports keep the recv_into buffer across a suspension
    return case


def _gen_blocking(rng, n: int) -> dict:
    frag = rng.choice([1, 7, 100, 4096, 65536])
    sizes = [0, 1, 100, 1500] if frag < 100 else [0, 1, 100, 20000, 40000]
    case = {"kind": "blocking", "seed": n, "role": rng.choice(["client", "server"]),
            "a2b": [rng.choice(sizes) for _ in range(rng.randint(1, 4))],
            "b2a": [rng.choice(sizes[1:]) for _ in range(rng.randint(1, 4))],
            "iter": rng.random() < 0.5, "frag": frag, "recv": rng.choice([1, 100, 16384, 70000]) if frag >= 100 else rng.choice([100, 16384])}
    if rng.random() < 0.4:
        # one do_handshake() that wants read, then write (its certificate flight overflows the send buffer), then read again:
        # big server certificate (role server) / big client certificate of a mutual-TLS client (role client)
        case.update(bigcert=rng.choice([300, 1000, 1000]), sndbuf=rng.choice([2048, 4096, 16384]),
                    retry_interval=rng.choice(["inf", "inf", 0.05]), frag=max(frag, 1024))
    return case


_CAPS = [1024, 1024, 2048, 4096, 4096, 8192, 16384, 16384, 65536]


def _gen_duplex(rng, n: int) -> dict:
    """full-duplex bulk transfer under backpressure: both directions carry more than the pipe holds (most of the time)"""
    cap = rng.choice(_CAPS)
    limit = max(4 * cap, 20000) if cap < 65536 else 200000       # plaintext per direction (keeps the replay small)

    def volumes(kind: str, ntasks: int) -> list[list[int]]:
        if kind == "small":                                      # fits in the pipe with the record overhead: never blocks
            pool = [1, 100, cap // 8, cap // 4]
            return [[rng.choice(pool) for _ in range(rng.randint(1, 2))] for _ in range(ntasks)]
        pool = [cap - 100, cap, cap + 1, cap + cap // 2, 2 * cap, 3 * cap + 7, 5 * cap, 16384, 16385, 40000]
        out = []
        for _ in range(ntasks):
            sizes, budget = [], limit // ntasks
            for _ in range(rng.randint(1, 3)):
                s = min(rng.choice(pool), budget)
                if s <= 0:
                    break
                sizes.append(s)
                budget -= s
            out.append(sizes or [cap + 1])
        return out

    shape = rng.random()
    na = 2 if rng.random() < 0.3 else 1
    nb = 2 if rng.random() < 0.3 else 1
    if shape < 0.70:
        ka, kb = "big", "big"
    elif shape < 0.85:
        ka, kb = "big", "small"
    else:
        ka, kb = "small", "big"
    # (two concurrent senders on BOTH sides with BOTH directions above the capacity is the configuration in which
    #  docs/C08-fix-1.patch alone still deadlocks: docs/C08.md, `C08_fix1_residual_deadlock`)
    a_send, b_send = volumes(ka, na), volumes(kb, nb)
    total = max(sum(map(sum, a_send)), sum(map(sum, b_send)))
    bufs = [n for n in (1024, 4096, 16384, 16384, 65536, 70000) if n * 150 >= total]
    case = {"kind": "duplex", "seed": n, "cap": cap, "ver": rng.choice(["1.3", "1.3", "1.3", "1.2"]),
            "role": rng.choice(["client", "server"]), "a_send": a_send, "b_send": b_send,
            "a_recv": [rng.choice(["recv", "recv", "recvinto"]), rng.choice(bufs)], "b_recv": rng.choice(bufs),
            "order": rng.choice(["readers-first", "senders-first", "mixed"]),
            "start": {k: rng.choice([0, 0, 0, 1, 2, 3]) for k in ("a1", "a2", "a3", "b1", "b2", "b3")},
            "frag": [rng.choice([0, 0, 1000, 4096, cap]), rng.choice([0, 0, 1000, 4096, cap])],
            "chunk": [rng.choice([0, 0, 512, 4096]), rng.choice([0, 0, 512, 4096])]}
    if rng.random() < 0.2:
        # request / response: side b answers only after it has received (part of) what side a sends
        case["b_after"] = rng.choice([1, sum(map(sum, a_send)) // 2, sum(map(sum, a_send))])
    if rng.random() < 0.5:
        # recv_into's buffer stays with the wrapped transport while the reader is suspended and is filled from a loop
        # callback (as the asyncio adapter does): the two ends' deliveries can land in the same loop iteration
        case["lend"] = True
    return case


_MULTI_SIZES = [0, 1, 1, 2, 7, 100, 1000, 5000, 16384, 16385, 20000, 33000, 50000]


def _gen_multi(rng, n: int) -> dict:
    """several library TLS transports in one loop over the real asyncio adapter (vlib/c08_multi.py)"""
    shape = rng.random()
    if shape < 0.30:
        peers = ["easynet"]                                          # both ends of ONE connection in-process
    elif shape < 0.60:
        peers = ["raw"] * rng.choice([2, 2, 3, 4])                   # N connections, each with an independent peer
    else:
        peers = [rng.choice(["easynet", "raw"]) for _ in range(rng.choice([2, 2, 3, 4]))]
    conns = [{"peer": p, "role": rng.choice(["client", "client", "server"])} for p in peers]
    rounds = []
    for _ in range(rng.choice([1, 2, 2, 3, 4])):
        small = rng.random() < 0.4
        pool = _MULTI_SIZES[1:7] if small else _MULTI_SIZES
        sizes = [[rng.choice(pool), rng.choice(pool)] for _ in conns]
        if not any(n > 0 for sz in sizes for n in sz):
            sizes[0][0] = 1
        rd = {"order": rng.choice(["readers-first", "readers-first", "readers-first", "writers-first", "staggered"]),
              "op": rng.choice(["recv", "recv", "recvinto"]), "buf": rng.choice([1024, 16384, 16384, 65536, 70000]),
              "sizes": sizes}
        if rng.random() < 0.3:
            rd["park"] = rng.choice([0, 1, 2, 8])
        if rd["order"] == "staggered":
            rd["gap"] = rng.choice([0, 1, 2, 3])
        rounds.append(rd)
    case = {"kind": "multi", "seed": n, "ver": rng.choice(["1.3", "1.3", "1.2"]), "conns": conns,
            "hs": rng.choice(["together", "together", "sequential"]), "rounds": rounds}
    if rng.random() < 0.25:
        case["sndbuf"] = rng.choice([4096, 16384])                   # real backpressure on the socket
    return case


def _gen_bulk(rng, n: int) -> dict:
    """one big write call (around / above the 256 KiB staging areas of the transport), the writer then idle, through
    coarse transports that hand over everything they have up to the caller's buffer (vlib/c08_bulk.py)"""
    from vlib import c08_bulk as K
    ver = rng.choice(["1.3", "1.3", "1.2"])
    ovh = K.record_overhead(ver)
    S = K.STAGING

    def size(kind: str) -> list:
        """-> one write call"""
        if kind == "small":
            return ["send", rng.choice([1, 32, 100, 5000, 16384, 16385])]
        if kind == "chunks":                                        # ONE send_all_from_iterable: every chunk is a record
            k = rng.choice([300, 2000, 8000, 13000])
            c = rng.choice([1, 7, 20, 100])
            return ["senditer", [c] * k + [rng.choice([1, 5000])]]
        if ovh is None or kind == "plain":
            return ["send", rng.choice([S - 400, S - 1, S, S + 1, S + 16384, 2 * S, 2 * S + 1, 400 * 1024, 512 * 1024 + 7,
                                        3 * S + 100, 1000000])]
        # ciphertext of exactly / just around k staging areas
        k = rng.choice([1, 1, 1, 2, 2, 3])
        d = rng.choice([0, 0, 0, 0, -1, 1, -ovh, ovh, -(16384 + ovh), 16384 + ovh, 5])
        ch = K.plain_for_ct(k * S + d, ovh)
        return ["send", ch[0]] if len(ch) == 1 else ["senditer", ch]

    steps = []
    for _ in range(rng.choice([1, 1, 2, 3])):
        first = rng.choice(["a", "a", "b", "b", "both"])
        kinds = ["exact", "exact", "exact", "plain", "plain", "chunks"]
        if first == "a":
            wa, wb = [size(rng.choice(kinds))], [size(rng.choice(["small", "small", "exact"]))]
        elif first == "b":
            wa, wb = [size(rng.choice(["small", "small", "exact"]))], [size(rng.choice(kinds))]
        else:
            wa, wb = [size(rng.choice(kinds))], [size(rng.choice(kinds + ["small"]))]
        if rng.random() < 0.15:
            wa.append(size(rng.choice(["small", "plain"])))         # a second concurrent write call on side a
        st = {"first": first, "a": wa, "b": wb}
        if rng.random() < 0.25:
            st["order"] = "writers-first"
        if rng.random() < 0.3:
            st["park"] = rng.choice([0, 1, 8])
        if rng.random() < 0.5:
            st["a_recv"] = rng.choice([["recv", 16384], ["recv", 70000], ["recv", 1 << 20], ["recvinto", 65536],
                                       ["recvinto", 262144], ["recvinto", 300000]])
        if rng.random() < 0.3:
            st["b_recv"] = rng.choice([16384, 70000, 262144, 1 << 20])
        steps.append(st)
    case = {"kind": "bulk", "seed": n, "ver": ver, "role": rng.choice(["client", "client", "server"]),
            "peer": rng.choice(["raw", "easynet", "easynet"]), "steps": steps}
    r = rng.random()
    if r < 0.15:
        case["cap"] = rng.choice([65536, S, S, 1 << 20])            # bounded pipes (0 = unbounded: the usual case here)
    elif r < 0.25:
        case["rbuf"] = rng.choice([[0, 65536], [S, S], [S - 1, 0], [100000, 0]])
    if rng.random() < 0.3:
        case["lend"] = True
    return case


def generate(rng, tier: str, boost: int):
    n_script = (6000 if tier == "quick" else 60000) * boost
    n_sess = (150 if tier == "quick" else 1500) * boost
    n_blk = (8 if tier == "quick" else 60) * (1 if boost == 1 else 2)
    dup_every = 2 if tier == "quick" else 3        # 75 / 500 duplex sessions
    multi_every = 3                                # 50 / 500 multi-transport sessions over the real asyncio adapter
    bulk_every = 3                                 # 50 / 500 big-write / coarse-fragmentation sessions (vlib/c08_bulk.py)
    from vlib import c08_cancel as X               # 150 / 1500 histories with cancelled lock waiters (vlib/c08_cancel.py)
    from vlib import c08_retry as T                # 300 / 3000 scripted blocking operations with direction flips (vlib/c08_retry.py)
    for i in range(n_sess):
        yield _gen_session(rng, rng.randrange(1 << 30))
        yield T.gen_retry(rng, rng.randrange(1 << 30))
        yield T.gen_retry(rng, rng.randrange(1 << 30))
        yield X.gen_cancel(rng, rng.randrange(1 << 30))
        if i % dup_every == 0:
            yield _gen_duplex(rng, rng.randrange(1 << 30))
        if i % multi_every == 1:
            yield _gen_multi(rng, rng.randrange(1 << 30))
        if i % bulk_every == 2:
            yield _gen_bulk(rng, rng.randrange(1 << 30))
        for _ in range(n_script // max(n_sess, 1)):
            yield _gen_script(rng)
    for i in range(n_blk):
        yield _gen_blocking(rng, rng.randrange(1 << 30))


def extra_coverage(stats) -> dict:
    return {"tls_law_problems": list(_law_problems[:5])}
