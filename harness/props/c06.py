"""
C06 — Malformed network input only ever surfaces as a parse error.

case    : serializer config x entry point (one-shot via DatagramProtocol, copying consumer, buffered consumer) x input bytes
          (random bytes, mutations of valid streams, structurally extreme input up to the limit) x cuts
real run: every delivered item is `pkt`, `err parse|limit|conv`; any other exception is `escape <Class>`; a watchdog turns
          a hang into `hang`, a receive loop that makes no progress into `loop`
model   : (a) framing: Lean consumer+framer models for separator / fixed-size framers (same chunks);
          (b) classification: Gen/ExcTables.lean is regenerated from the AST of the serializers' except clauses and the live
              class hierarchy; the theorems over it are re-checked by `lake build`; every exception class the real libraries
              raised during this run must be inside the declared alphabet (assumption check)
oracle  : only pkt / parse errors; each error consumes >= 1 byte (number of items <= number of bytes); no hang.
session 3: every serializer also in debug=True mode (bare, wrapped and as the wrapped serializer), file toys with every
          expected_load_error set / peeking / read-ahead loaders, structurally extreme JSON x debug x use_lines in the corpus;
          "carrying the unread remainder": streams of well-delimited frames known by construction (vlib/genericfr.py): the valid
          frames behind a malformed one are still delivered (mode stream), and the remainder object itself equals the bytes
          after the malformed frame (mode direct: protocol generators driven by hand).
session 4: 20 text encodings x 6 error handlers for line / JSON / named-tuple text fields (codecs differ in the exception class
          they report malformed input with), malformed input per codec (sers.CODEC_BAD) in corpus and generator; every other
          constructor option (sers.vary, malformed=True); hostile pickles; size errors of separator framers: the remainder carried
          is exactly the unread bytes (behind the terminator / the received beginning of the terminator) and decoding resumes
          behind the over-long token (vlib/genericfr.py `_limit_remainder`, `_resumes_after_big`, `_overlong_family`).
"""
from __future__ import annotations

import signal
from typing import Any

from vlib import core, sers, streamdrive as sd
from vlib import jraw  # ---- raw JSON framer ----

from easynetwork.exceptions import DatagramProtocolParseError, StreamProtocolParseError
from easynetwork.lowlevel._stream import BufferedStreamDataConsumer, StreamDataConsumer
from easynetwork.protocol import DatagramProtocol

ID = "C06"
CLAIMED = True
TITLE = "Malformed input only ever surfaces as a parse error"
REQUIRED_THEOREMS = ["C06_progress", "C06_items_bounded", "C06_only_parse_errors",
                     "C06_jraw_progress"]  # ---- raw JSON framer ----
LEVEL_TEXT = (
    "Machine-checked proof (Lean 4): the modelled framers are total and every delivered item or error consumes at least one "
    "byte, so a skip-errors receive loop performs at most |stream| iterations; every exception class of the declared alphabet "
    "raised at a codec call site is classified as a parse error by the except-clause tables regenerated from the source on "
    "every run. Correspondence: fuzzing of the real serializers through all three entry points, with the raised classes "
    "checked against the alphabet, and the framing model diffed against the real consumers."
)
LEVEL_NOTE = (
    "The alphabet of exceptions third-party decoders can raise on bytes input is an assumption, validated by fuzzing only. "
    "Configuration corner |separator| > limit (F6) is excluded explicitly."
)
TECHNIQUE = "Lean 4 theorems (progress/termination of framing; decide over source-generated except-clause tables) + translator + fuzz correspondence"
TRUSTED_BASE = [
    "Lean 4.33.0 kernel; axioms allowed: propext, Classical.choice, Quot.sound",
    "translator harness/translate/exc_tables.py (AST of except clauses + live issubclass) — cross-checked by exception injection",
    "declared exception alphabet of json/str/base64/zlib/bz2/struct/pickle on bytes input (validated by fuzzing)",
]
ASSUMPTIONS = ["separator length <= limit", "the wrapped decoders raise only classes of the declared alphabet"]
RULE = ("case = serializer x entry point x input (random / mutated valid stream / extreme nesting or token) x cuts; non-trivial = "
        "at least one error item or an input that is not a valid stream; distinct by case digest")

_aux: dict[str, Any] = {}
RAISED: dict[str, int] = {}
BIG_SKIPPED = [0]


class _Hang(BaseException):
    pass


def _alarm(signum, frame):
    raise _Hang()


def _note(exc: BaseException) -> None:
    """record the class of the innermost cause (what the wrapped library raised)"""
    e: BaseException | None = exc
    seen = 0
    while e is not None and seen < 10:
        name = type(e).__module__ + "." + type(e).__qualname__
        RAISED[name] = RAISED.get(name, 0) + 1
        e = e.__cause__ or e.__context__
        seen += 1


def _make_exc(q: str) -> BaseException:
    import importlib
    m, _, n = q.rpartition(".")
    cls = getattr(importlib.import_module(m), n)
    if issubclass(cls, UnicodeDecodeError):
        return cls("utf-8", b"\xff", 0, 1, "injected")
    if n == "JSONDecodeError":
        return cls("injected", "doc", 0)
    if q == "easynetwork.exceptions.PacketConversionError":
        return cls("injected")
    if q == "easynetwork.exceptions.DeserializeError":
        return cls("injected")
    return cls("injected")


def _injected_serializer(pipeline: str, exc_q: str):
    """a real serializer whose codec call site `pipeline` raises an instance of `exc_q`, built through PUBLIC
    extension points only; returns (serializer, valid-looking input bytes, converter or None)"""
    from easynetwork.serializers.json import JSONDecoderConfig, JSONSerializer
    from easynetwork.serializers.pickle import PickleSerializer
    from easynetwork.serializers.wrapper.base64 import Base64EncoderSerializer
    from easynetwork.serializers.wrapper.compressor import BZ2CompressorSerializer, ZlibCompressorSerializer
    import pickle as _pickle

    site = pipeline.split("/")[0]

    def boom(*a, **k):
        raise _make_exc(exc_q)

    from easynetwork.serializers.abc import AbstractPacketSerializer

    class RaisingInner(AbstractPacketSerializer):
        def serialize(self, packet):
            return b"x"

        def deserialize(self, data):
            boom()

    if site == "json.decode":
        ser = JSONSerializer(decoder_config=JSONDecoderConfig(object_hook=boom), limit=65536, use_lines=True)
        return ser, (b"{}\n" if not pipeline.endswith("oneshot") else b"{}"), None
    if site == "pickle.load":
        class U(_pickle.Unpickler):
            def load(self):
                boom()
        return PickleSerializer(unpickler_cls=U), _pickle.dumps(1), None
    if site == "filebased.load":
        class T(sers.ToyFile):
            def load_from_file(self, file):
                file.read(1)
                boom()
        return T(64), b"\x01a", None
    if site in ("zlib.decompress", "bz2.decompress"):
        base = ZlibCompressorSerializer if site.startswith("zlib") else BZ2CompressorSerializer

        class D:
            eof = False
            unused_data = b""

            def decompress(self, data):
                boom()

        class Z(base):
            def new_decompressor_stream(self):
                return D()
        return Z(JSONSerializer()), b"abc", None
    if site in ("zlib.inner", "bz2.inner"):
        base = ZlibCompressorSerializer if site.startswith("zlib") else BZ2CompressorSerializer
        good = base(JSONSerializer()).serialize(1)
        return base(RaisingInner()), good, None
    if site == "autosep.inner":
        good = Base64EncoderSerializer(JSONSerializer()).serialize(1)
        return Base64EncoderSerializer(RaisingInner()), good + b"\r\n", None
    if site == "converter":
        class Cv(sd.WrapConverter):
            def create_from_dto_packet(self, packet):
                boom()
        return sers.build({"k": "line", "newline": "LF", "limit": 64}), b"abc\n", Cv()
    return None


def _run_inject(case: dict) -> list[str]:
    from easynetwork.protocol import BufferedStreamProtocol, StreamProtocol
    built = _injected_serializer(case["inject"], case["exc"])
    if built is None:
        return ["no-hook"]
    ser, data, conv = built
    ep = case["inject"].split("/")[1]
    try:
        if ep == "oneshot":
            DatagramProtocol(ser, conv).build_packet_from_datagram(data.rstrip(b"\r\n") if case["inject"].startswith("autosep") else data)
        elif ep == "copy":
            c = StreamDataConsumer(StreamProtocol(ser, conv))
            c.next(data)
        else:
            c = BufferedStreamDataConsumer(BufferedStreamProtocol(ser, conv), 1024)
            v = memoryview(c.get_write_buffer())
            v[:len(data)] = data
            c.next(len(data))
    except StopIteration:
        return ["swallowed"]
    except BaseException as e:  # noqa: BLE001
        return [f"top {type(e).__module__}.{type(e).__qualname__}"]
    return ["swallowed"]


def run_real(case: dict) -> list[str]:
    if "inject" in case:
        return _run_inject(case)
    spec = case["spec"]
    data = bytes.fromhex(case["data"])
    mode = case["mode"]
    lines: list[str] = []
    old = signal.signal(signal.SIGALRM, _alarm)
    signal.setitimer(signal.ITIMER_REAL, 20.0)
    chunks_used: list[bytes] = []
    keep = sd.Retain()      # the reported errors are retained: the remainder they carry is read again at the end of the run
    try:
        if mode == "oneshot":
            proto = DatagramProtocol(sers.build(spec))
            try:
                p = proto.build_packet_from_datagram(data)
                lines.append("pkt")
            except DatagramProtocolParseError as e:
                _note(e)
                lines.append("err parse")
            except _Hang:
                raise
            except BaseException as e:  # noqa: BLE001
                _note(e)
                lines.append(f"escape {type(e).__name__}")
        else:
            proto = sd.make_protocol(spec, "buffered" if mode == "buffered" else "copy")
            items = 0
            budget = len(data) + 2

            def deliver(fn, arg) -> bool:
                nonlocal items
                while True:
                    try:
                        fn(arg)
                    except StopIteration:
                        return True
                    except StreamProtocolParseError as e:
                        _note(e)
                        keep.add_err(e, lines)
                    except _Hang:
                        raise
                    except BaseException as e:  # noqa: BLE001
                        _note(e)
                        lines.append(f"escape {type(e).__name__}")
                        return False
                    else:
                        lines.append("pkt")
                    items += 1
                    if items > budget:
                        lines.append("loop")
                        return False
                    arg = None

            if mode == "copy":
                consumer = StreamDataConsumer(proto)
                for ch in sd.cut(data, case["cuts"]):
                    chunks_used.append(ch)
                    if not deliver(consumer.next, ch):
                        break
            else:
                consumer = BufferedStreamDataConsumer(proto, case["hint"])
                i, k = 0, 0
                fills = case["cuts"] or [1 << 30]
                while i < len(data):
                    try:
                        view = memoryview(consumer.get_write_buffer())
                    except RuntimeError as e:
                        lines.append("escape RuntimeError")
                        break
                    n = max(1, min(fills[k % len(fills)], view.nbytes, len(data) - i))
                    k += 1
                    view[:n] = data[i:i + n]
                    view.release()
                    chunks_used.append(data[i:i + n])
                    i += n
                    if not deliver(consumer.next, n):
                        break
        keep.finish(lines)
    except _Hang:
        lines.append("hang")
    finally:
        signal.setitimer(signal.ITIMER_REAL, 0)
        signal.signal(signal.SIGALRM, old)
    _aux[core.case_digest(case)] = {"chunks": chunks_used}
    return lines


def model_input(case: dict, real: list[str]):
    if "inject" in case:
        if real == ["no-hook"]:
            return None
        return f"excflow {case['inject']}", [f"raise {case['exc']}"]
    if case["mode"] == "oneshot":
        return None
    path = "buffered" if case["mode"] == "buffered" else "copy"
    if len(case["data"]) > 2 * 16384 and case.get("origin") == "extreme" and int(core.case_digest(case)[:4], 16) % 3:
        # the Lean separator / fixed-size framer models are quadratic in the frame length (about 4 s for one 60 KB frame):
        # generated inputs above 16 KB go through the model in one case out of three (the oracle judges all of them)
        BIG_SKIPPED[0] += 1
        return None
    head = sers.model_head(case["spec"], path, case.get("hint", 0))
    aux = _aux.get(core.case_digest(case))
    if head is None or aux is None or any(ln.startswith(("escape", "hang", "loop", "mutated")) for ln in real):
        return None
    op = "feed" if path == "copy" else "fill"
    return head, [f"{op} {core.hexs(c)}" for c in aux["chunks"]]


def model_post(case: dict, lines: list[str]) -> list[str]:
    if "inject" in case:
        return lines
    lines = [ln for ln in lines if not ln.startswith(("held ", "buf ", "room "))]
    out = sd.codec_items(case["spec"], lines)
    return ["pkt" if ln.startswith("pkt ") else ln for ln in out]


PARSE = ("top easynetwork.exceptions.StreamProtocolParseError", "top easynetwork.exceptions.DatagramProtocolParseError")


def oracle(case: dict, real: list[str]) -> str | None:
    if "inject" in case:
        if real == ["no-hook"] or real[0] in PARSE:
            return None
        if real == ["swallowed"] and (case["inject"], case["exc"]) in (("filebased.load/copy", "builtins.EOFError"),
                                                                      ("filebased.load/buffered", "builtins.EOFError")):
            return None   # EOFError from the file loader = "need more data"
        return f"{case['exc']} raised at {case['inject']} left the library as {real[0]}"
    for ln in real:
        if ln.startswith(("escape", "hang", "loop", "harness-exc")):
            return f"{ln} (entry point {case['mode']})"
    why = sd.mutated(real)
    if why:
        return f"{why} (entry point {case['mode']})"
    n = len(bytes.fromhex(case["data"]))
    items = [ln for ln in real if ln.startswith(("pkt", "err"))]
    if case["mode"] != "oneshot" and len(items) > n:
        return f"{len(items)} items delivered from {n} bytes: some error consumed nothing"
    return None


def nontrivial(case: dict, real: list[str]) -> str | None:
    if "inject" in case:
        return None if real == ["no-hook"] else f"inject/{case['inject']}"
    if any(ln.startswith("err") for ln in real):
        kinds = sorted({ln for ln in real if ln.startswith("err")})
        return f"{sers.recv_spec(case['spec'])['k']}/{case['mode']}/" + "+".join(k.split()[1] for k in kinds)
    if case.get("origin") != "valid":
        return f"{sers.recv_spec(case['spec'])['k']}/{case['mode']}/no-error"
    return None


def shrink(case: dict):
    if "inject" in case:
        return
    data = bytes.fromhex(case["data"])
    n = len(data)
    if n > 1:
        yield {**case, "data": data[: n // 2].hex()}
        yield {**case, "data": data[n // 2:].hex()}
        for i in range(0, n, max(1, n // 16)):
            yield {**case, "data": (data[:i] + data[i + max(1, n // 16):]).hex()}
    cuts = case["cuts"]
    if len(cuts) > 1:
        yield {**case, "cuts": [max(cuts)]}


def known_key(case: dict, real: list[str], why: str) -> str:
    if "inject" in case:
        return f"inject={case['inject']},exc={case['exc']}"
    bad = next((ln for ln in real if ln.startswith(("escape", "hang", "loop", "harness-exc"))), "items")
    return f"k={sers.recv_spec(case['spec'])['k']},what={bad.replace(' ', ':')}"


def translate() -> None:
    from translate import exc_tables
    exc_tables.regenerate()


def _specs(rng) -> dict:
    """every shipped serializer (and the harness subclasses of the public base classes), each also in its debug=True mode
    (error reports then build an `error_info` from the failing input / exception: that code runs only on errors)"""
    spec = _specs0(rng)
    if rng.random() < 0.5:
        spec["debug"] = True
    inner = spec.get("inner")
    if inner is not None and rng.random() < 0.5:
        spec["inner"] = {**inner, "debug": True}
    # session 4: constructor options from their legal domain — for malformed input that is EVERY text encoding (utf-16, utf-32,
    # utf-7, idna, punycode, cp1252, shift_jis, unicode_escape…: codecs differ in the exception class they report malformed
    # input with) x every error handler that exists for decoding, JSON decoder knobs, struct formats, named-tuple fields,
    # keyed checksums, pickle unpickler options, wrappers around any inner serializer
    if rng.random() < 0.6:
        sers.vary(rng, spec, malformed=True)
    return spec


def _specs0(rng) -> dict:
    lim = rng.choice([16, 64, 256, 65536])
    k = rng.choice(["line", "line", "jsonl", "jsonraw", "struct", "ntstruct", "b64", "zlib", "bz2", "autosep", "fixed", "filetoy", "pickle",
                    "filepeek", "fileahead"])
    if k == "line":
        return {"k": "line", "newline": rng.choice(["LF", "CR", "CRLF"]), "keep_end": rng.random() < 0.3,
                "encoding": rng.choice(["ascii", "utf-8"]), "limit": lim}
    if k == "jsonl":
        return {"k": "json", "use_lines": True, "limit": lim}
    if k == "jsonraw":
        return {"k": "json", "use_lines": False, "limit": lim}
    if k == "struct":
        return {"k": "struct", "format": rng.choice(["!B", "!HB", "!IH", "<qB", "!?f"])}
    if k == "ntstruct":
        return {"k": "ntstruct"}
    inner = rng.choice([{"k": "json", "use_lines": True, "limit": 65536}, {"k": "pickle"},
                        {"k": "line", "newline": "LF", "limit": 65536, "encoding": "utf-8"}, {"k": "struct", "format": "!IH"}])
    if k == "b64":
        return {"k": "b64", "inner": inner, "alphabet": rng.choice(["standard", "urlsafe"]), "checksum": rng.random() < 0.5,
                "separator": rng.choice(["0d0a", "0a", "7c", "3c7c3e", "0d0a2e"]), "limit": lim}
    if k in ("zlib", "bz2"):
        return {"k": k, "inner": inner}
    if k == "autosep":
        return {"k": "autosep", "sep": rng.choice(["0a", "0d0a", "616162", "3c7c3e", "61626364"]), "limit": lim, "check": True}
    if k == "fixed":
        return {"k": "fixed", "size": rng.choice([1, 3, 8])}
    if k in sers.FILE_TOYS:
        spec = {"k": k, "limit": max(lim, 32)}
        e = rng.choice(sers.EXPECTED_KEYS)
        if e != "toy":
            spec["expected"] = e
        return spec
    return {"k": "pickle"}


def _mutate(rng, data: bytes) -> bytes:
    b = bytearray(data)
    for _ in range(rng.randint(1, 4)):
        if not b:
            b = bytearray(rng.randbytes(3))
        op = rng.randrange(6)
        i = rng.randrange(len(b))
        if op == 0:
            b[i] ^= 1 << rng.randrange(8)
        elif op == 1:
            del b[i:i + rng.randint(1, 4)]
        elif op == 2:
            b[i:i] = rng.randbytes(rng.randint(1, 3))
        elif op == 3:
            b = b[:i]
        elif op == 4:
            b[i:i] = rng.choice([b"\n", b"\r\n", b"\xff", b"\xc3", b"\x00", b"=", b"{", b'"', b"\\"])
        else:
            j = rng.randrange(len(b))
            b[i], b[j] = b[j], b[i]
    return bytes(b)


def _extreme(rng, spec: dict) -> bytes:
    lim = sers.limit_of(spec) or 65536
    n = min(lim, 60000)
    r = rng.randrange(6)
    if r == 0:
        d = min(n // 2 - 1, rng.choice([50, 900, 1100, 5000, 20000]))
        return b"[" * d + b"]" * d + b"\n"
    if r == 1:
        d = min(n // 6, rng.choice([50, 1100, 5000]))
        return b'{"a":' * d + b"1" + b"}" * d + b"\n"
    if r == 2:
        return b"9" * min(n - 2, rng.choice([100, 4299, 4301, 5000, 40000])) + b"\n"
    if r == 3:
        return b'"' + b"a" * min(n - 4, 30000) + b'"\n'
    if r == 4:
        return b"-" * min(n - 2, 5000) + b"\n"
    return b"1e" + b"9" * min(n - 4, 400) + b"\n"


def _codec_malformed(rng, spec: dict, leaf: dict, mode: str) -> bytes:
    enc = leaf["encoding"]
    cands = sers.CODEC_BAD.get(enc) or sers.CODEC_BAD["utf-8"]
    sep = sers.separator(spec) if spec is leaf or spec["k"] == "json" else None
    if leaf["k"] == "ntstruct" and spec is leaf and "fields" in leaf:
        import struct as _struct
        size = _struct.calcsize(sers.nt_format(leaf))
        out = b""
        for _ in range(1 if mode == "oneshot" else rng.randint(1, 3)):
            b = rng.choice(cands)
            out += (b * (size // max(1, len(b)) + 1))[:size]
        return out
    parts = []
    for _ in range(1 if mode == "oneshot" else rng.randint(1, 4)):
        b = rng.choice(cands) if rng.random() < 0.7 else b"ok"
        if rng.random() < 0.3:
            b = b"x" + b + b"."
        parts.append(b + (sep or b"\n" if mode != "oneshot" else b""))
    return b"".join(parts)


def _codec_corpus() -> list[dict]:
    """every text encoding x the inputs its codec rejects (sers.CODEC_BAD: idna / punycode report them with a plain UnicodeError,
    the others with UnicodeDecodeError) x line / JSON lines / raw JSON / named-tuple struct x all three entry points x debug x
    drip feed / small reads / one read, each stream ending with a valid frame"""
    import struct as _struct
    out = []
    for enc, bads in sers.CODEC_BAD.items():
        bads = [b for b in bads if b"\n" not in b and b"\r" not in b]
        if not bads:
            continue
        for dbg in (False, True):
            specs = [{"k": "line", "newline": "LF", "keep_end": dbg, "encoding": enc, "errors": "strict", "limit": 256, "debug": dbg},
                     {"k": "json", "use_lines": True, "limit": 256, "encoding": enc, "errors": "strict", "debug": dbg}]
            if not dbg:
                specs.append({"k": "line", "newline": "CRLF", "keep_end": False, "encoding": enc, "errors": "surrogateescape", "limit": 256})
                specs.append({"k": "json", "use_lines": False, "limit": 256, "encoding": enc, "errors": "strict", "debug": True})
            for spec in specs:
                sep = sers.separator(spec) or b"\n"
                stream = b"".join(b + sep for b in bads) + b"0" + sep
                for b in bads:
                    out.append({"spec": spec, "mode": "oneshot", "data": b.hex(), "cuts": [4096], "hint": 64, "origin": "codec"})
                for mode in ("copy", "buffered") if sers.is_buffered(spec) else ("copy",):
                    for cuts in ([4096], [1], [5, 2]):
                        out.append({"spec": spec, "mode": mode, "data": stream.hex(), "cuts": cuts, "hint": 16, "origin": "codec"})
        for strip in (True, False):
            spec = {"k": "ntstruct", "fields": [["n", "B"], ["name", "8s"]], "endian": "!", "encoding": enc, "errors": "strict", "strip": strip,
                    "debug": strip}
            frames = [_struct.pack("!B8s", 1, b) for b in bads if len(b) <= 8]
            if frames:
                for f in frames:
                    out.append({"spec": spec, "mode": "oneshot", "data": f.hex(), "cuts": [4096], "hint": 64, "origin": "codec"})
                for mode in ("copy", "buffered"):
                    for cuts in ([4096], [1]):
                        out.append({"spec": spec, "mode": mode, "data": b"".join(frames).hex(), "cuts": cuts, "hint": 16, "origin": "codec"})
    return out


def _hostile_pickles() -> list[dict]:
    """well-formed pickles whose loading raises (sers.HOSTILE_PICKLES, the classes of the declared pickle alphabet): bare (one-shot)
    and inside base64 / zlib / bz2 (all three entry points), each followed by a valid frame"""
    import base64
    import bz2
    import zlib
    out = []
    skip = ("StopIteration", "FileNotFoundError")     # outside the declared alphabet of the pickle pipeline (C05 uses them)
    blobs = [b for n, b in sers.HOSTILE_PICKLES.items() if n not in skip]
    for dbg in (False, True):
        pk = {"k": "pickle", "debug": dbg}
        for b in blobs:
            out.append({"spec": pk, "mode": "oneshot", "data": b.hex(), "cuts": [4096], "hint": 64, "origin": "hostile"})
        for spec, enc, sep in (({"k": "b64", "inner": pk, "alphabet": "urlsafe", "checksum": False, "separator": "0d0a", "limit": 65536, "debug": dbg},
                                base64.urlsafe_b64encode, b"\r\n"),
                               ({"k": "zlib", "inner": pk, "debug": dbg}, zlib.compress, b""), ({"k": "bz2", "inner": pk, "debug": dbg}, bz2.compress, b"")):
            good = enc(sers.build(pk).serialize(1)) + sep
            for b in blobs:
                out.append({"spec": spec, "mode": "oneshot", "data": enc(b).hex(), "cuts": [4096], "hint": 64, "origin": "hostile"})
            stream = b"".join(enc(b) + sep + good for b in blobs)
            for mode in ("copy", "buffered"):
                for cuts in ([4096], [7]):
                    out.append({"spec": spec, "mode": mode, "data": stream.hex(), "cuts": cuts, "hint": 64, "origin": "hostile"})
    return out


def _injection_cases() -> list[dict]:
    """every (pipeline, alphabet class) pair for which a public injection hook exists"""
    from translate import exc_tables
    out = []
    for p in exc_tables._pipelines():
        for a in p["alphabet"]:
            out.append({"inject": p["name"], "exc": a})
    return out


def tie_problems(stats) -> list[str]:
    from translate import exc_tables
    bad = exc_tables.outside_alphabet(RAISED)
    return [f"exception classes raised by the wrapped libraries outside the declared alphabet: {bad}"] if bad else []


def corpus() -> list[dict]:
    js = {"k": "json", "use_lines": True, "limit": 65536}
    jr = {"k": "json", "use_lines": False, "limit": 65536}
    out = []
    for spec in (js, jr):
        for mode in ("oneshot", "copy"):
            out.append({"spec": spec, "mode": mode, "data": (b"[" * 5000 + b"]" * 5000 + b"\n").hex(), "cuts": [4096], "hint": 64, "origin": "extreme"})
            out.append({"spec": spec, "mode": mode, "data": (b"9" * 5000 + b"\n").hex(), "cuts": [4096], "hint": 64, "origin": "extreme"})
    b64 = {"k": "b64", "inner": js, "alphabet": "urlsafe", "checksum": True, "separator": "0d0a", "limit": 65536}
    for mode in ("oneshot", "copy", "buffered"):
        out.append({"spec": b64, "mode": mode, "data": b"!!!!\r\nQUJD\r\n====\r\n".hex(), "cuts": [3], "hint": 8, "origin": "random"})
    # fixed defect (de9e321): the error raised by the buffered consumer carried a view of the receive buffer (overwritten at once)
    out.append({"spec": {"k": "line", "newline": "LF", "keep_end": False, "encoding": "utf-8", "limit": 64}, "mode": "buffered",
                "data": b"\xff\xfe\nrest!XYZ and more data".hex(), "cuts": [4096], "hint": 1024, "origin": "random"})
    out.append({"spec": {"k": "line", "newline": "CRLF", "keep_end": True, "encoding": "utf-8", "limit": 64, "debug": True},
                "mode": "buffered", "data": "ff0d0a6bc30d0a", "cuts": [5], "hint": 8, "origin": "random"})
    out.append({"spec": {"k": "autosep", "sep": "3c7c3e", "limit": 16, "check": True, "debug": True}, "mode": "buffered",
                "data": "ff61623c7c3e6f6b3c7c3e7878787878787878787878", "cuts": [4096], "hint": 8, "origin": "random"})
    out += _debug_corpus()
    out += _codec_corpus()
    out += _hostile_pickles()
    return out + _injection_cases()


def _debug_corpus() -> list[dict]:
    """debug=True: every error branch of every serializer builds its `error_info` — structurally extreme JSON inside the
    limit (nesting beyond the recursion limit, integer literals beyond the int/str conversion limit, each followed by a valid
    document), bare and wrapped (base64, zlib, bz2), plus one malformed input per remaining serializer, all entry points"""
    import base64
    import bz2
    import zlib
    out = []
    ok = b'{"ok":1}\n'
    extremes = [b"[" * 5000 + b"]" * 5000, b'{"a":' * 2000 + b"1" + b"}" * 2000, b"9" * 5000, b"[" + b"9" * 4301 + b"]", b"-" * 3000]
    for use_lines in (True, False):
        spec = {"k": "json", "use_lines": use_lines, "limit": 65536, "debug": True}
        for doc in extremes:
            out.append({"spec": spec, "mode": "oneshot", "data": doc.hex(), "cuts": [4096], "hint": 64, "origin": "extreme"})
            for cuts in ([65536], [1000]):
                out.append({"spec": spec, "mode": "copy", "data": (doc + b"\n" + ok).hex(), "cuts": cuts, "hint": 64, "origin": "extreme"})
        out.append({"spec": spec, "mode": "copy", "data": b'"\xff"\n{"a":}\n[1,,2]\n'.hex(), "cuts": [2], "hint": 64, "origin": "random"})
    jd = {"k": "json", "use_lines": True, "limit": 65536, "debug": True}
    for doc in extremes[:4]:
        for wrap in ("b64", "zlib", "bz2"):
            if wrap == "b64":
                spec = {"k": "b64", "inner": jd, "alphabet": "urlsafe", "checksum": False, "separator": "0d0a", "limit": 65536, "debug": True}
                data, tail = base64.urlsafe_b64encode(doc), b"\r\n"
            else:
                spec = {"k": wrap, "inner": jd, "debug": True}
                data, tail = (zlib.compress(doc) if wrap == "zlib" else bz2.compress(doc)), b""
            out.append({"spec": spec, "mode": "oneshot", "data": data.hex(), "cuts": [4096], "hint": 64, "origin": "extreme"})
            for mode in ("copy", "buffered"):
                out.append({"spec": spec, "mode": mode, "data": (data + tail).hex(), "cuts": [4096, 7], "hint": 64, "origin": "extreme"})
    others = [
        ({"k": "line", "newline": "CRLF", "keep_end": True, "encoding": "utf-8", "limit": 64, "debug": True}, b"ab\xff\r\nok\r\n\xc3\r\n"),
        ({"k": "line", "newline": "LF", "keep_end": False, "encoding": "ascii", "limit": 8, "debug": True}, b"abcdefghijklmnop\nok\n\xe9\n"),
        ({"k": "struct", "format": "!?f", "debug": True}, b"\x02\xff\xff\xff\xff\x00"),
        ({"k": "ntstruct", "debug": True}, b"\x00\x00\x00\x01\x00\x02\xff\xfeab\x00\x00" * 2),
        ({"k": "autosep", "sep": "3c7c3e", "limit": 16, "check": True, "debug": True}, b"\xffab<|>ok<|>" + b"x" * 40 + b"<|>"),
        ({"k": "fixed", "size": 3, "debug": True}, b"\xffabok1\xff"),
        ({"k": "pickle", "debug": True}, b"\x80\x04nonsense"),
        ({"k": "pickle", "debug": True}, b"\x80\x04K\x01.\x80\x04K\x02."),          # a complete pickle followed by extra data
        ({"k": "b64", "inner": {"k": "pickle", "debug": True}, "alphabet": "standard", "checksum": True, "separator": "3c7c3e", "limit": 64,
          "debug": True}, b"QUJ<|>QUJD<|>!!!!<|" + b"A" * 80 + b"<|>"),
        ({"k": "zlib", "inner": {"k": "line", "newline": "LF", "limit": 65536, "encoding": "utf-8", "debug": True}, "debug": True},
         zlib.compress(b"\xff\xfe") + b"garbage" + zlib.compress(b"ok")),
        ({"k": "bz2", "inner": {"k": "pickle", "debug": True}, "debug": True}, bz2.compress(b"\x80\x04nonsense") + b"BZh9garbage"),
    ]
    for k in sers.FILE_TOYS:
        for e in ("toy", "exception", "tuple", "deser"):
            others.append(({"k": k, "limit": 32, "expected": e, "debug": True}, b"\x02ab\xff\x01c\xc9\x00" + bytes([200]) + b"q" * 60))
    for spec, data in others:
        modes = ["oneshot"] + ([] if spec["k"] == "pickle" else ["copy"] + (["buffered"] if sers.is_buffered(spec) else []))
        for mode in modes:
            for cuts in ([4096], [1], [3, 5]):
                out.append({"spec": spec, "mode": mode, "data": data.hex(), "cuts": cuts, "hint": 8, "origin": "random"})
    return out


def generate(rng, tier: str, boost: int):
    n = (5000 if tier == "quick" else 150000) * boost
    for _ in range(n):
        spec = _specs(rng)
        buffered_ok = sers.is_buffered(spec)
        incremental = spec["k"] != "pickle"
        modes = ["oneshot"] + (["copy"] if incremental else []) + (["buffered"] if buffered_ok and incremental else [])
        mode = rng.choice(modes)
        r = rng.random()
        origin = "random"
        leaf = sers._leaf_spec(spec)
        if leaf.get("encoding") and rng.random() < 0.3:
            # what the text codec in use reports as malformed (idna: empty / over-long labels, broken punycode; utf-16: odd
            # length, lone surrogate halves; utf-7: bad base64 runs; …), framed or bare, between valid frames
            data = _codec_malformed(rng, spec, leaf, mode)
            origin = "codec"
        elif r < 0.3:
            data = rng.randbytes(rng.randint(0, 40))
        elif r < 0.85:
            # mutation of a valid stream / datagram
            try:
                packets = [sers.gen_packet(rng, spec, 8) for _ in range(1 if mode == "oneshot" else rng.randint(1, 4))]
                if mode == "oneshot":
                    data = sers.build(spec).serialize(packets[0])
                else:
                    data = b"".join(sd.produce(spec, packets))
            except Exception:
                data = rng.randbytes(8)
            if rng.random() < 0.15:
                origin = "valid"
            else:
                data = _mutate(rng, data)
                origin = "mutated"
        else:
            data = _extreme(rng, spec)
            origin = "extreme"
        cuts = [rng.choice([1, 2, 3, 7, 64, 4096]) for _ in range(rng.randint(1, 5))]
        if len(data) > 3000:
            # long inputs are read in realistic sizes: the raw-JSON scanner re-scans plain values on every read, which is
            # quadratic (slow, not a hang) when tens of kilobytes are drip-fed one byte at a time
            cuts = [max(c, 512) for c in cuts]
        yield {"spec": spec, "mode": mode, "data": data.hex(), "cuts": cuts, "hint": rng.choice([1, 8, 64, 16384]), "origin": origin}
    # ---- raw JSON framer ---- malformed soup for the raw JSON framer (closers first, unbalanced, control bytes, lone backslashes)
    for _ in range((900 if tier == "quick" else 30000) * boost):
        spec = {"k": "json", "use_lines": False, "limit": rng.choice([4, 8, 16, 64, 256])}
        data = jraw.gen_soup(rng)
        r = rng.random()
        cuts = [1] if r < 0.35 else [rng.randint(1, max(1, len(data))), 4096] if r < 0.6 else [rng.choice([1, 2, 3, 7, 64]) for _ in range(rng.randint(1, 5))]
        yield {"spec": spec, "mode": "copy" if rng.random() < 0.85 else "oneshot", "data": data.hex(), "cuts": cuts, "hint": 1, "origin": "soup"}
    # ---- end raw JSON framer ----


def extra_coverage(stats) -> dict:
    from translate import exc_tables
    return {"exception_classes_raised_by_libraries": dict(sorted(RAISED.items())),
            "alphabet_violations": exc_tables.outside_alphabet(RAISED),
            "model_runs_skipped_big_extreme_inputs": BIG_SKIPPED[0],
            "model_runs_by_framer": dict(sorted(sers.MODEL_RUNS.items()))}  # ---- raw JSON framer ----


def after_batch() -> None:
    _aux.clear()


# ---- generic framers ----
# file-based / compressor framers (Lean model GenericFr): adds the case kind "generic" and gives the existing cases whose
# serializer is a file toy or a zlib/bz2 wrapper a model run (see vlib/genericfr.py, docs/GENERICFR.md)
from vlib import genericfr as _genericfr  # noqa: E402

_genericfr.install(globals(), "C06")
# ---- end generic framers ----
