"""
C16 — Datagram server: per-client FIFO, one active handler, nothing dropped.

real run : the real AsyncDatagramServer.serve over the real DatagramListenerSocketAdapter/DatagramListenerProtocol
           (driven through datagram_received), optionally with servers/misc + async_udp._ClientContext on top
           (api "high"), on the virtual-time loop, with scripted arrivals from several addresses interleaved with
           scripted handler progress (vlib/c16_env.py).
model run: the observed schedule (which task stepped when, what the request handler generator did) is replayed on the
           Lean transition system EasyNet.DgramSrv (endriver); every step must be enabled in the model and yield the
           same observable lines (which datagram starts a generator, which datagram is delivered at each yield / wake-up,
           restarts, what is left at quiescence).
oracle   : per address: requests seen by the generators == arrivals, in order, once each (a generator that ends before
           its first yield consumes exactly one — documented); never two generators alive for one address; at
           quiescence nothing is left for any address whose handler is not blocked for ever, whatever the others do.
"""
from __future__ import annotations

from typing import Any

from vlib import core, c16_env as env

ID = "C16"
CLAIMED = True
TITLE = "Datagram server: per-client FIFO, one active handler, nothing dropped"
REQUIRED_THEOREMS = ["C16_fifo_once", "C16_single_runner", "C16_not_stuck", "C16_no_inconsistent_state", "C16_isolation", "C16_projection",
                     "C16_can_drain"]
LEVEL_TEXT = (
    "Machine-checked proof (Lean 4) over the transition system of AsyncDatagramServer.serve's per-client logic "
    "(handler task, push_datagram, client coroutine, task-done hook): for every arrival order, every schedule of task "
    "steps and every behaviour of the request handler generator, datagrams are consumed exactly once in arrival order, "
    "at most one generator is alive per address, a queued datagram always has a running, pending or about-to-be-notified "
    "consumer, and the inconsistent-state branches are unreachable; plus a trace-refinement correspondence check of "
    "the model against the real server, and a direct FIFO / single-generator / nothing-left oracle."
)
LEVEL_NOTE = (
    "Trusted: Lean kernel; axioms propext, Quot.sound, Classical.choice only; the hand-written model is tied to the "
    "code by the correspondence check (sampled schedules); the listener is assumed to start the per-datagram tasks of "
    "one address in arrival order (asyncio call_soon FIFO — exercised, not proved); isolation between addresses is "
    "structural in the model (one _ClientData per address) and checked on the real server by the oracle."
)
TECHNIQUE = "Lean 4 inductive invariants over all schedules of a labelled transition system + trace refinement check against the real code + direct oracle"
TRUSTED_BASE = [
    "Lean 4.33.0 kernel; axioms allowed: propext, Classical.choice, Quot.sound",
    "hand-written model EasyNet/Model/DgramSrv.lean tied to lowlevel/api_async/servers/datagram.py by trace replay (sampled)",
    "asyncio: tasks of one task group start in creation order; Condition/Lock semantics (exercised through the real objects)",
    "harness: virtual-time loop, listener/backend/condition proxies on public ABCs, scripted request handler, endriver parser",
]
ASSUMPTIONS = [
    "per-datagram handler tasks of one address run their first step in arrival order (listener contract)",
    "the request handler generator does not leak exceptions into the server task group (C17) and the server is not "
    "shut down during the run (C18)",
]
RULE = (
    "case = api (low-level generator / misc+_ClientContext stack) x addresses (1-3) x datagrams received before serve() "
    "(0-3, or a backlog of 17-60 with arrivals in the turns right after serve() starts) x "
    "per-address generator programs (suspensions, yield with/without timeout, return, raise, raise CancelledError, raise an "
    "ExceptionGroup — flat / nested / mixed with ClientClosedError / the one of a real asyncio.TaskGroup whose child fails) x "
    "default / eager task factory (eager: oracle only) x per-turn script (arrivals with "
    "optional suspension of the handler at the condition lock, gate releases, clock advances) x never-released addresses; "
    "non-trivial = queued while running, restart by the task-done hook, discard before first yield, timeout, suspended push, "
    "blocked neighbour (class = first two that apply); distinct by case digest"
)

NOISE = ("gate", "go", "hs")


def run_real(case: dict) -> list[str]:
    return env.run_case(case)


def real_for_diff(case: dict, real: list[str]) -> list[str]:
    # a generator that ends by raising CancelledError is, for the model, a generator that finishes with an exception
    # swallowed above it (label `ge`, written `end a e`): the cancelled task is tolerated by the task group
    # (the same for one that ends with an exception group: `end a g`)
    return [(ln[:-1] + "e" if ln.startswith("end ") and ln.endswith((" c", " g")) else ln) for ln in real if ln.split()[0] not in NOISE]


def model_input(case: dict, real: list[str]):
    if case.get("eager"):
        # on an eager-task loop a task's first step runs inside start_soon(): the (loop turn, task) bookkeeping that tells
        # the trace labels rs / wk apart no longer identifies the model's atomic steps: oracle only
        return None
    if len(real) > 4000 and int(core.case_digest(case)[:4], 16) % 6:
        # very long queues (thousands of datagrams): the model's queue operations are linear in the queue length, one run
        # costs seconds: five out of six of these go to the oracle only
        return None
    ops: list[str] = []
    for ln in real_for_diff(case, real):
        k = ln.split()[0]
        if k == "h":
            ops.append("h " + ln.split()[1])
        elif k in ("arrive", "hl", "y", "yt", "end", "to", "rs", "wk", "quiet"):
            ops.append(ln)
        elif k in ("cb", "req", "bad", "left", "active-max"):
            pass            # determined by the model
        else:
            ops.append("unknown " + k)
    return f"dgsrv {int(case['naddr'])}", ops


def _per_addr(case: dict, real: list[str]) -> dict[int, dict[str, Any]]:
    res: dict[int, dict[str, Any]] = {a: {"arr": [], "got": [], "alive": 0, "maxalive": 0, "fresh": False, "disc": 0, "left": None,
                                           "events": []} for a in range(int(case["naddr"]))}
    for ln in real:
        w = ln.split()
        if len(w) < 2 or not w[1].isdigit() or int(w[1]) not in res:
            continue
        r = res[int(w[1])]
        k = w[0]
        if k == "arrive":
            r["arr"].append(w[2])
        elif k == "cb":
            r["alive"] += 1
            r["maxalive"] = max(r["maxalive"], r["alive"])
            r["fresh"] = True
        elif k in ("y", "yt"):
            r["fresh"] = False
        elif k in ("req", "bad"):
            r["got"].append((w[2], len(r["arr"])))
        elif k == "end":
            if r["fresh"]:
                r["got"].append((None, len(r["arr"])))     # discarded before the first yield
                r["disc"] += 1
            r["fresh"] = False
            r["alive"] -= 1
        elif k == "left":
            r["left"] = int(w[2])
    return res


def oracle(case: dict, real: list[str]) -> str | None:
    if any(ln.startswith(("harness-exc", "stalled", "serve-ended")) for ln in real):
        return "run did not complete: " + next(ln for ln in real if ln.startswith(("harness-exc", "stalled", "serve-ended")))
    if "quiet" not in real:
        return "no quiescence observed"
    never = set(case.get("never", []))
    for a, r in _per_addr(case, real).items():
        if r["maxalive"] > 1:
            return f"two generators alive at once for address {a}"
        arr = r["arr"]
        for i, (d, seen) in enumerate(r["got"]):
            if i >= len(arr) or i >= seen:
                return f"address {a}: a request was handled that had not arrived (#{i})"
            if d is not None and d != arr[i]:
                return f"address {a}: request #{i} is {d}, arrival order says {arr[i]} (order / duplication / loss)"
        if a not in never and len(r["got"]) != len(arr):
            return f"address {a}: {len(arr) - len(r['got'])} datagram(s) never handled at quiescence (others blocked: {sorted(never)})"
        if r["left"] is not None and r["left"] != len(arr) - len(r["got"]):
            return f"address {a}: bookkeeping mismatch left={r['left']}"
    return None


def nontrivial(case: dict, real: list[str]) -> str | None:
    tags = []
    lines = real_for_diff(case, real)
    if any(ln.startswith("hl ") for ln in lines):
        tags.append("queued-while-running")
    restart = any(ln.startswith("rs ") for ln in lines)
    if restart:
        tags.append("restart")
    if any(r["disc"] for r in _per_addr(case, real).values()):
        tags.append("discard")
    if any(ln.startswith("to ") for ln in lines):
        tags.append("timeout")
    if any(ln.startswith("hs ") for ln in real):
        tags.append("suspended-push")
    if case.get("never"):
        tags.append("blocked-neighbour")
    if any(ln.startswith("bad ") for ln in lines):
        tags.append("parse-error")
    if any(ln.startswith("end ") and ln.endswith(" c") for ln in real):
        tags.insert(0, "cancelled-end")
    if any(ln.startswith("end ") and ln.endswith(" g") for ln in real):
        tags.insert(0, "group-end")
    if len(case.get("early", [])) > 16:
        tags.insert(0, "backlog")
    if case.get("eager"):
        tags.insert(0, "eager")
    if not tags:
        return None
    return case.get("api", "low") + "/" + "+".join(tags[:2])


def known_key(case: dict, real: list[str], why: str) -> str:
    return "why=" + "-".join(why.replace(":", " ").split()[:3])


def shrink(case: dict):
    sc = case.get("script", [])
    for i in range(len(sc)):
        yield {**case, "script": sc[:i] + sc[i + 1:]}
    for i, t in enumerate(sc):
        for j in range(len(t)):
            yield {**case, "script": sc[:i] + [t[:j] + t[j + 1:]] + sc[i + 1:]}
        for j, a in enumerate(t):
            if a[0] == "a" and len(a) > 3 and a[3]:
                yield {**case, "script": sc[:i] + [t[:j] + [[a[0], a[1], a[2], 0]] + t[j + 1:]] + sc[i + 1:]}
    early = case.get("early", [])
    if len(early) > 8:
        for k in (len(early) // 2, len(early) // 4):
            for i in range(0, len(early), k):
                yield {**case, "early": early[:i] + early[i + k:]}
    for i in range(len(early)):
        yield {**case, "early": early[:i] + early[i + 1:]}
    progs = case.get("progs", {})
    for a in list(progs):
        yield {**case, "progs": {k: v for k, v in progs.items() if k != a}}
        for i in range(len(progs[a])):
            yield {**case, "progs": {**progs, a: progs[a][:i] + progs[a][i + 1:]}}
            for j in range(len(progs[a][i])):
                p = progs[a][i]
                yield {**case, "progs": {**progs, a: progs[a][:i] + [p[:j] + p[j + 1:]] + progs[a][i + 1:]}}
                if p[j].get("s"):
                    yield {**case, "progs": {**progs, a: progs[a][:i] + [p[:j] + [{**p[j], "s": 0}] + p[j + 1:]] + progs[a][i + 1:]}}
    if case.get("never"):
        yield {**case, "never": []}
    if case.get("eager"):
        yield {**case, "eager": False}
    if case.get("api") == "high":
        yield {**case, "api": "low"}


def corpus() -> list[dict]:
    cs: list[dict] = []
    Y, R = {"s": 0, "do": "y"}, {"s": 0, "do": "r"}
    # datagrams received before serve(), then a burst for one address while its generator is suspended
    cs.append({"api": "low", "naddr": 2, "early": [[0, "aa"], [1, "bb"], [0, "ab"]],
               "progs": {"0": [[{"s": 1, "do": "y"}]]},
               "script": [[["a", 0, "01"], ["a", 0, "02"], ["a", 1, "0a"]], [], [["g", 0]], [["a", 0, "03"]]]})
    # generator finishes after each request: the task-done hook restarts a coroutine while the queue is non-empty;
    # the datagram arrives exactly in the turn in which the generator finishes (both orders)
    for sc in ([[["a", 0, "01"], ["a", 0, "02"], ["a", 0, "03"]], [], []],
               [[["a", 0, "01"]], [["g", 0], ["a", 0, "02"]], [["a", 0, "03"]]],
               [[["a", 0, "01"]], [["a", 0, "02"], ["g", 0]], [], [["a", 0, "03"]]],
               [[["a", 0, "01"]], [["g", 0]], [["a", 0, "02"]], [["a", 0, "03"]]]):
        cs.append({"api": "low", "naddr": 1, "early": [], "progs": {"0": [[{"s": 0, "do": "y"}, {"s": 1, "do": "r"}]] * 3}, "script": sc})
    # generator returns before its first yield (documented discard), queue non-empty: restart chain
    cs.append({"api": "low", "naddr": 1, "early": [], "progs": {"0": [[R], [{"s": 1, "do": "r"}], [Y]]},
               "script": [[["a", 0, "01"], ["a", 0, "02"], ["a", 0, "03"], ["a", 0, "04"]], [], [["g", 0]]]})
    # timeout while waiting, datagram arriving in the same turn as the timeout
    cs.append({"api": "high", "naddr": 1, "early": [], "progs": {"0": [[{"s": 0, "do": "yt", "t": 2}, {"s": 0, "do": "yt", "t": 2}, Y, {"s": 0, "do": "e"}]]},
               "script": [[["a", 0, "01"]], [], [["t", 2], ["a", 0, "02"]], [], [["a", 0, "2103"], ["a", 0, "04"]]]})
    # handler suspended at the condition lock while the generator finishes / restarts
    cs.append({"api": "low", "naddr": 1, "early": [], "progs": {"0": [[{"s": 0, "do": "y"}, {"s": 1, "do": "r"}], [{"s": 0, "do": "y"}, {"s": 0, "do": "r"}]]},
               "script": [[["a", 0, "01"]], [["a", 0, "02", 2]], [["g", 0]], [], [["a", 0, "03", 1]], []]})
    # handler still suspended at the lock while the generator takes its datagram and finishes: when it resumes the
    # state is None and the queue is empty (the `nb_datagrams_in_queue > 0` test must use the length AFTER the lock)
    cs.append({"api": "low", "naddr": 1, "early": [], "progs": {"0": [[{"s": 0, "do": "y"}, {"s": 1, "do": "y"}, {"s": 0, "do": "r"}]]},
               "script": [[["a", 0, "01"]], [["a", 0, "02", 3]], [["g", 0]], [], [], [], [["a", 0, "03"]]]})
    # a neighbour blocked for ever must not hold the others back
    cs.append({"api": "high", "naddr": 3, "early": [], "never": [1], "progs": {"1": [[{"s": 1, "do": "y"}]]},
               "script": [[["a", 1, "b1"], ["a", 0, "01"], ["a", 2, "c1"]], [["a", 1, "b2"], ["a", 0, "02"]], [], [["a", 2, "c2"], ["a", 0, "03"]]]})
    # a backlog drained by polling (`yield 0`): every queued datagram is delivered, then TimeoutError
    Z = {"s": 0, "do": "yt", "t": 0}
    for api in ("low", "high"):
        cs.append({"api": api, "naddr": 1, "early": [], "progs": {"0": [[Y, Z, Z, Z, Z, {"s": 0, "do": "r"}]]},
                   "script": [[["a", 0, "01"], ["a", 0, "02"], ["a", 0, "03"]], [], [], [], []]})
        cs.append({"api": api, "naddr": 2, "early": [[0, "aa"], [0, "ab"], [1, "ba"]],
                   "progs": {"0": [[Z, Z, Z, {"s": 0, "do": "r"}]], "1": [[Z, Y, {"s": 0, "do": "r"}]]},
                   "script": [[["a", 1, "0b"]], [], [], []]})
    # a generator that leaves through CancelledError (ends only its own task; the task group tolerates a cancelled child)
    # while datagrams of its address are queued behind it / arrive in the same turn / arrive later: a fresh generator
    # must take them, in order; the neighbour is not affected
    C = {"s": 1, "do": "c"}
    for api in ("low", "high"):
        cs.append({"api": api, "naddr": 2, "early": [], "progs": {"0": [[Y, C], [Y, Y, {"s": 0, "do": "c"}], [Y]]},
                   "script": [[["a", 0, "01"]], [["a", 0, "02"], ["a", 0, "03"], ["a", 1, "0a"]], [["g", 0]], [],
                              [["a", 0, "04"]], [["a", 0, "05"], ["a", 1, "0b"]]], "never": []})
        cs.append({"api": api, "naddr": 1, "early": [], "progs": {"0": [[C], [Y, C], [{"s": 0, "do": "c"}], [Y]]},
                   "script": [[["a", 0, "01"], ["a", 0, "02"], ["a", 0, "03"]], [["g", 0], ["a", 0, "04", 1]], [["g", 0]],
                              [["a", 0, "05"]]], "never": []})
    # a generator that ends with an ExceptionGroup (a handler working in an asyncio.TaskGroup whose child fails; groups
    # built by hand: flat, nested, mixed with ClientClosedError, only ClientClosedError) while datagrams of its address are
    # queued behind it / arrive in the same turn / later: _ClientContext.__aexit__ swallows and logs it, a fresh generator
    # takes what is queued, in order; the neighbour is not affected; serve() does not end.  Also on an eager-task loop.
    for end in ({"s": 1, "do": "tg", "n": 1}, {"s": 0, "do": "tg", "n": 2}, {"s": 1, "do": "g", "tree": ["g", "RuntimeError"]},
                {"s": 1, "do": "g", "tree": ["g", ["g", "ValueError"], "OSError"]},
                {"s": 0, "do": "g", "tree": ["g", "ClientClosedError", "RuntimeError"]},
                {"s": 1, "do": "g", "tree": ["g", "ClientClosedError"]}, {"s": 1, "do": "g", "tree": "ClientClosedError"}):
        for eager in (False, True):
            cs.append({"api": "high", "naddr": 2, "early": [], "eager": eager,
                       "progs": {"0": [[Y, end], [Y, Y, {**end, "s": 0}], [Y]]},
                       "script": [[["a", 0, "01"]], [["a", 0, "02"], ["a", 0, "03"], ["a", 1, "0a"]], [["g", 0]], [],
                                  [["a", 0, "04"]], [["a", 0, "05"], ["a", 1, "0b"]]], "never": []})
            cs.append({"api": "high", "naddr": 1, "early": [], "eager": eager,
                       "progs": {"0": [[end], [Y, end], [{**end, "s": 0}], [Y]]},
                       "script": [[["a", 0, "01"], ["a", 0, "02"], ["a", 0, "03"]], [["g", 0], ["a", 0, "04", 1]], [["g", 0]],
                                  [["a", 0, "05"]]], "never": []})
    # eager task factory: a burst queued behind a generator that waits, then ends (return / exception / cancelled): the
    # task-done hook re-spawns the client coroutine, whose first step now runs INSIDE start_soon()
    for api in ("low", "high"):
        for do in ("r", "e", "c"):
            cs.append({"api": api, "naddr": 2, "early": [], "eager": True,
                       "progs": {"0": [[Y, {"s": 1, "do": do}]] * 4},
                       "script": [[["a", 0, "01"], ["a", 0, "02"], ["a", 0, "03"], ["a", 1, "0a"]], [], [["g", 0]], [["a", 0, "04"]],
                                  [["g", 0], ["a", 1, "0b"]], []], "never": []})
    # a backlog larger than any plausible batch size received before serve(), and datagrams of the same addresses read
    # in the first turns after serve() started: the parked ones go first, per address
    for n, naddr in ((17, 1), (40, 1), (50, 2)):
        cs.append({"api": "low", "naddr": naddr, "early": [[i % naddr, f"{0x30 + i:02x}"] for i in range(n)], "progs": {},
                   "script": [[["a", 0, "a0"]], [["a", naddr - 1, "a1"], ["a", 0, "a2"]], [["a", 0, "a3"]], [["a", 0, "a4"]]],
                   "never": []})
    cs.append({"api": "high", "naddr": 1, "early": [[0, f"{0x30 + i:02x}"] for i in range(36)],
               "progs": {"0": [[Y, {"s": 0, "do": "r"}]] * 40},
               "script": [[["a", 0, "a0"]], [["a", 0, "a1"]], [["a", 0, "a2"]]], "never": []})
    # a start-up backlog far beyond any internal batch / queue size (more than 1024 datagrams read before serve() is awaited,
    # from 1 and from 3 addresses): nothing may be dropped, per-address order kept
    for n, naddr in ((1350, 1), (1350, 3), (2100, 2)):
        cs.append({"api": "low", "naddr": naddr, "early": [[i % naddr, f"{i % 251:02x}{i // 251:02x}"] for i in range(n)], "progs": {},
                   "script": [[["a", 0, "ffa0"]], [["a", naddr - 1, "ffa1"]], [], []], "never": []})
    # a queue far beyond any plausible internal bound behind ONE address whose generator waits (more than 4096 datagrams), then the
    # generator goes on: every queued datagram is handled, in order; the neighbour is served meanwhile
    for n in (4200, 5000, 9000):
        cs.append({"api": "low", "naddr": 2, "early": [], "progs": {"0": [[{"s": 1, "do": "y"}]]},
                   "script": [[["a", 0, "01"]], [["a", 0, f"{i % 250:02x}"] for i in range(n)] + [["a", 1, "0a"]], [["g", 0]], [], []],
                   "never": []})
    # fixed defect (/repo 14674d9): eager task factory + a long queue behind a waiting generator, successors that never suspend:
    # one nested call per queued datagram -> RecursionError from about 165 datagrams on (docs/C16-fix-1-repro.py)
    for n in (170, 200, 400):
        for api in ("low", "high"):
            for do in ("r", "e"):
                cs.append({"api": api, "naddr": 1, "early": [], "eager": True,
                           "progs": {"0": [[{"s": 1, "do": "r"}]] + [[{"s": 0, "do": do}]] * (n + 5)},
                           "script": [[["a", 0, f"{i % 250:02x}"] for i in range(n + 1)], [], [["g", 0]], [], []], "never": []})
    return cs


def _rand_prog(rng, high: bool) -> list[dict]:
    prog = []
    for _ in range(rng.randint(0, 4)):
        r = rng.random()
        s = rng.choice([0, 0, 0, 1, 1, 2])
        if r < 0.55:
            prog.append({"s": s, "do": "y"})
        elif r < 0.75:
            # (a zero timeout is a poll: a datagram that is already queued must be delivered, not dropped)
            prog.append({"s": s, "do": "yt", "t": rng.choice([0, 0, 1, 2, 3])})
        elif r < 0.87:
            prog.append({"s": s, "do": "r"})
            break
        elif r < 0.94:
            # leaves through CancelledError: only the generator's own task ends, the server goes on
            prog.append({"s": s, "do": "c"})
            break
        else:
            prog.append(_exc_end(rng, s) if high else {"s": s, "do": "r"})
            break
    return prog


GROUP_TREES = [
    ["g", "RuntimeError"], ["g", "ValueError", "OSError"], ["g", ["g", "UserError"]], ["g", ["g", "ValueError"], "RuntimeError"],
    ["g", "ClientClosedError", "RuntimeError"], ["g", "ClientClosedError"], ["g", ["g", "ClientClosedError"], ["g", "ConnectionResetError"]],
    "ClientClosedError", "ValueError", "ConnectionResetError",
]


def _rand_tree(rng, depth: int = 2):
    if depth <= 0 or rng.random() < 0.4:
        return rng.choice(env.GROUP_LEAVES)
    return ["g"] + [_rand_tree(rng, depth - 1) for _ in range(rng.randint(1, 3))]


def _exc_end(rng, s: int) -> dict:
    """a generator that ends with an exception (api high: swallowed and logged by _ClientContext.__aexit__): a plain one,
    an ExceptionGroup (flat / nested / mixed with or made only of ClientClosedError), or the group raised by a real
    asyncio.TaskGroup whose children fail"""
    r = rng.random()
    if r < 0.3:
        return {"s": s, "do": "e"}
    if r < 0.5:
        return {"s": s, "do": "tg", "n": rng.choice([1, 1, 2, 3])}
    if r < 0.8:
        return {"s": s, "do": "g", "tree": rng.choice(GROUP_TREES)}
    t = _rand_tree(rng)
    return {"s": s, "do": "g", "tree": t if not isinstance(t, str) or rng.random() < 0.3 else ["g", t]}


def _rand_case(rng) -> dict:
    naddr = rng.choice([1, 1, 2, 2, 3])
    high = rng.random() < 0.4
    cnt = [0]

    def dgram() -> str:
        cnt[0] += 1
        body = f"{cnt[0]:02x}"
        return ("21" + body) if rng.random() < 0.08 else body

    early = [[rng.randrange(naddr), dgram()] for _ in range(rng.choice([0, 0, 0, 1, 2, 3]))]
    progs = {}
    for a in range(naddr):
        if rng.random() < 0.8:
            progs[str(a)] = [_rand_prog(rng, high) for _ in range(rng.randint(1, 4))]
    script = []
    for _ in range(rng.randint(1, 12)):
        t: list = []
        for _ in range(rng.choice([0, 1, 1, 2, 3])):
            r = rng.random()
            if r < 0.55:
                t.append(["a", rng.randrange(naddr), dgram(), rng.choice([0, 0, 0, 0, 1, 2])])
            elif r < 0.85:
                t.append(["g", rng.randrange(naddr)])
            else:
                t.append(["t", rng.choice([1, 2, 3])])
        script.append(t)
    never = []
    if naddr > 1 and rng.random() < 0.15:
        b = rng.randrange(naddr)
        never = [b]
        progs[str(b)] = [[{"s": 1, "do": "y"}]]
    return {"api": "high" if high else "low", "naddr": naddr, "early": early, "progs": progs, "script": script, "never": never}


def _dense_case(rng) -> dict:
    """one or two addresses, short-lived generators, handlers suspended at the lock, a gate release or an arrival in
    almost every turn: aims at the windows 'generator finishes / restarts while a handler is between append and notify'"""
    naddr = rng.choice([1, 1, 2])
    cnt = [0]

    def dgram() -> str:
        cnt[0] += 1
        return f"{cnt[0]:02x}"

    progs = {}
    api = rng.choice(["low", "low", "high"])
    for a in range(naddr):
        ps = []
        for _ in range(rng.randint(1, 5)):
            k = rng.choice([0, 1, 1, 2, 2, 3])
            prog = [{"s": rng.choice([0, 0, 1]), "do": "y"} for _ in range(k)]
            s_end = rng.choice([0, 1, 1])
            if api == "high" and rng.random() < 0.2:
                prog.append(_exc_end(rng, s_end))
            else:
                prog.append({"s": s_end, "do": rng.choice(["r", "r", "r", "c"])})
            ps.append(prog)
        progs[str(a)] = ps
    script = []
    for _ in range(rng.randint(3, 10)):
        t: list = []
        for _ in range(rng.choice([1, 1, 2, 2, 3])):
            if rng.random() < 0.5:
                t.append(["a", rng.randrange(naddr), dgram(), rng.choice([0, 1, 2, 3, 4])])
            else:
                t.append(["g", rng.randrange(naddr)])
        script.append(t)
    return {"api": api, "naddr": naddr, "early": [], "progs": progs, "script": script, "never": []}


def _backlog_case(rng) -> dict:
    """a large backlog received BEFORE serve() runs (17-60 datagrams, one or several addresses: the listener parks them
    and hands them over when serve() starts), more datagrams of the same addresses arriving in the very first loop turns
    after serve() started, i.e. while / right after the backlog is handed over: per-address arrival order must hold
    across the two paths (parked -> flushed, and read while the flush may still be in progress)"""
    naddr = rng.choice([1, 1, 2, 3])
    cnt = [0]

    def dgram() -> str:
        cnt[0] += 1
        return f"{cnt[0] % 256:02x}" if cnt[0] % 256 != 0x21 else "20"

    nearly = rng.choice([17, 18, 20, 24, 31, 32, 33, 34, 40, 48, 49, 50, 60, rng.randint(17, 60), rng.randint(17, 60)])
    if rng.random() < 0.04:
        # far beyond any internal batch or queue bound (powers of two and their neighbours up to a few thousand)
        nearly = rng.choice([255, 256, 257, 511, 512, 513, 1023, 1024, 1025, 1026, 2047, 2048, 2049, rng.randint(300, 3000)])
    hot = rng.randrange(naddr)
    early = [[hot if rng.random() < 0.7 else rng.randrange(naddr), dgram()] for _ in range(nearly)]
    progs = {}
    for a in range(naddr):
        r = rng.random()
        if r < 0.5:
            progs[str(a)] = []                                   # one long-lived generator (default stage: yield)
        elif r < 0.8:
            progs[str(a)] = [[{"s": 0, "do": "y"}, {"s": 0, "do": rng.choice(["r", "r", "c"])}]] * rng.randint(1, 8)
        else:
            progs[str(a)] = [_rand_prog(rng, False) for _ in range(rng.randint(1, 4))]
    script = []
    for i in range(rng.randint(1, 6)):
        t: list = []
        for _ in range(rng.choice([1, 1, 2, 3]) if i < 4 else rng.choice([0, 1])):
            if rng.random() < 0.85:
                t.append(["a", hot if rng.random() < 0.7 else rng.randrange(naddr), dgram(), 0])
            else:
                t.append(["g", rng.randrange(naddr)])
        script.append(t)
    return {"api": rng.choice(["low", "low", "high"]), "naddr": naddr, "early": early, "progs": progs, "script": script,
            "never": []}


def _cancel_end_case(rng) -> dict:
    """generators that leave through CancelledError (which ends only their own task) while datagrams of their address are
    queued behind them, arrive in the same turn, or arrive later: everything must still be handled, in order, by a fresh
    generator"""
    naddr = rng.choice([1, 1, 2])
    cnt = [0]

    def dgram() -> str:
        cnt[0] += 1
        return f"{cnt[0]:02x}" if cnt[0] != 0x21 else "20"

    progs = {}
    for a in range(naddr):
        ps = []
        for _ in range(rng.randint(1, 4)):
            k = rng.choice([0, 1, 1, 1, 2])
            prog = [{"s": rng.choice([0, 0, 1]), "do": rng.choice(["y", "y", "y", "yt"]), "t": rng.choice([0, 1, 2])} for _ in range(k)]
            prog.append({"s": rng.choice([0, 1, 1, 2]), "do": rng.choice(["c", "c", "c", "r", "e", "tg"])})
            ps.append(prog)
        progs[str(a)] = ps
    script = []
    for _ in range(rng.randint(2, 9)):
        t: list = []
        for _ in range(rng.choice([0, 1, 1, 2, 3])):
            r = rng.random()
            if r < 0.55:
                t.append(["a", rng.randrange(naddr), dgram(), rng.choice([0, 0, 0, 1, 2])])
            elif r < 0.92:
                t.append(["g", rng.randrange(naddr)])
            else:
                t.append(["t", rng.choice([1, 2])])
        script.append(t)
    early = [[rng.randrange(naddr), dgram()] for _ in range(rng.choice([0, 0, 0, 1, 2]))]
    return {"api": rng.choice(["low", "high"]), "naddr": naddr, "early": early, "progs": progs, "script": script, "never": []}


def _exc_end_case(rng) -> dict:
    """api high: generators that end with an EXCEPTION after 0-2 requests — plain, ExceptionGroup (flat, nested, mixed with
    ClientClosedError), the group of a real asyncio.TaskGroup whose child fails — while datagrams of their address are
    queued behind them, arrive in the same turn, or arrive later, and a second address goes on: everything must still be
    handled, in order, by a fresh generator; the neighbour is not affected; the server stays up"""
    naddr = rng.choice([1, 2, 2, 3])
    cnt = [0]

    def dgram() -> str:
        cnt[0] += 1
        return f"{cnt[0]:02x}" if cnt[0] != 0x21 else "20"

    progs = {}
    for a in range(naddr):
        if a > 0 and rng.random() < 0.4:
            continue                            # a quiet neighbour: one long-lived generator
        ps = []
        for _ in range(rng.randint(1, 4)):
            k = rng.choice([0, 1, 1, 1, 2])
            prog = [{"s": rng.choice([0, 0, 1]), "do": rng.choice(["y", "y", "y", "yt"]), "t": rng.choice([0, 1, 2])} for _ in range(k)]
            s_end = rng.choice([0, 1, 1, 2])
            prog.append(_exc_end(rng, s_end) if rng.random() < 0.8 else {"s": s_end, "do": rng.choice(["r", "c"])})
            ps.append(prog)
        progs[str(a)] = ps
    script = []
    for _ in range(rng.randint(2, 9)):
        t: list = []
        for _ in range(rng.choice([0, 1, 1, 2, 3])):
            r = rng.random()
            if r < 0.6:
                t.append(["a", rng.randrange(naddr) if rng.random() < 0.5 else 0, dgram(), rng.choice([0, 0, 0, 1, 2])])
            elif r < 0.94:
                t.append(["g", rng.randrange(naddr)])
            else:
                t.append(["t", rng.choice([1, 2])])
        script.append(t)
    early = [[rng.randrange(naddr), dgram()] for _ in range(rng.choice([0, 0, 0, 1, 2]))]
    return {"api": "high", "naddr": naddr, "early": early, "progs": progs, "script": script, "never": []}


def _with_eager(rng, case: dict) -> dict:
    """every sixth case runs on a loop whose task factory is asyncio.eager_task_factory (explicitly supported by the
    server: see the comment in AsyncDatagramServer.__on_client_coroutine_task_done): a task's first step runs inside
    start_soon() / create_task()"""
    if rng.random() < 1 / 6:
        case["eager"] = True
    return case


def _long_queue_case(rng) -> dict:
    """ONE address accumulates a queue of a size around a power of two (up to ~10 000) behind its waiting generator while a
    neighbour is served; then the generator goes on (long-lived, or short-lived ones that restart): nothing may be dropped"""
    n = rng.choice([255, 256, 257, 1023, 1024, 1025, 2048, 4095, 4096, 4097, 4098, 8191, 8192, 8193, rng.randint(300, 10000)])
    api = rng.choice(["low", "low", "high"])
    first = [{"s": 1, "do": "y"}] if rng.random() < 0.5 else [{"s": 1, "do": "r"}]
    rest = [[{"s": 0, "do": "y"}] * rng.choice([1, 3, 50]) + [{"s": 0, "do": "r"}]] * 4
    turns = [[["a", 0, "01"]], [["a", 0, f"{i % 250:02x}"] for i in range(n)] + [["a", 1, "0a"]], [["g", 0]], [["a", 0, "fb"]], []]
    return {"api": api, "naddr": 2, "early": [], "progs": {"0": [first] + rest}, "script": turns, "never": []}


def generate(rng, tier: str, boost: int):
    n = (3000 if tier == "quick" else 20000) * boost
    erng = core.sub_rng(rng.getrandbits(32), "c16-eager")
    for i in range(n):
        if i % 250 == 11:
            yield _long_queue_case(rng)
        yield _with_eager(erng, _dense_case(rng) if rng.random() < 0.4 else _rand_case(rng))
        if i % 10 == 3:
            yield _with_eager(erng, _cancel_end_case(rng))
        elif i % 10 == 6:
            yield _with_eager(erng, _exc_end_case(rng))
        elif i % 20 == 7:
            yield _with_eager(erng, _backlog_case(rng))
    if tier != "quick" and boost == 1:
        # exhaustive: one address, every sequence of 6 turns over {arrival, arrival whose handler sleeps 2 turns at the
        # lock, gate release}, against three generator behaviours (finish after every request / every second request /
        # before the first yield every other time)
        import itertools
        behaviours = [
            [[{"s": 0, "do": "y"}, {"s": 1, "do": "r"}]] * 7,
            [[{"s": 1, "do": "y"}, {"s": 0, "do": "y"}, {"s": 1, "do": "r"}]] * 7,
            [[{"s": 1, "do": "r"}], [{"s": 0, "do": "y"}, {"s": 1, "do": "r"}]] * 4,
        ]
        for progs in behaviours:
            for seq in itertools.product("asg", repeat=6):
                k = 0
                script = []
                for ch in seq:
                    if ch == "g":
                        script.append([["g", 0]])
                    else:
                        k += 1
                        script.append([["a", 0, f"{k:02x}", 2 if ch == "s" else 0]])
                yield {"api": "low", "naddr": 1, "early": [], "progs": {"0": progs}, "script": script, "never": []}


def extra_coverage(stats) -> dict:
    return {"model_scope": "per-address machine EasyNet.DgramSrv; addresses are independent components (Sys)"}
