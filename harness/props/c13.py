"""
C13 — Cancel scopes interrupt on time, swallow only their own cancel, honour shields.

real run : a generated program (nested move_on/timeout scopes, sleeps, checkpoints, shielded sections,
           scope.cancel()/reschedule, user-level `except CancelledError` / `finally` clean-up, task-group children started
           with start_soon() / start(), Task.join()/wait(), the other checkpoints of the backend API: Event.wait,
           Lock.acquire, Condition.wait, run_in_thread in both modes, sleep_until, sleep_forever) is compiled to real
           coroutines on `AsyncIOBackend` and run on a virtual-time event loop, one `_run_once()` at a time, with
           external `task.cancel()` calls injected at chosen ticks; the trace is canonical text
model run: the same program through the Lean kernel + CancelScope model (`endriver`, model `cs`)
oracle   : the clauses of the property judged on the real trace alone (vlib/c13_oracle.py)
"""
from __future__ import annotations

from typing import Any

from vlib import core, c13_run, c13_oracle, c13_gen

ID = "C13"
CLAIMED = True
TITLE = "Cancel scopes interrupt on time, swallow only their own cancel, honour shields"
REQUIRED_THEOREMS = [
    "C13_interrupt",
    "C13_redelivery_requests_cancel",
    "C13_never_swallow",
    "C13_timeout_iff_caught",
    "C13_no_leftover",
    "C13_exit_undoes_own_calls",
    "C13_shield_swallows_at_yield",
    "C13_shield_keeps_waiting",
    "C13_swallowed_cancel_redelivered",
]
LEVEL_TEXT = (
    "Machine-checked proof (Lean 4) on an executable model of CancelScope / cancel_shielded_await / _timeout_scope "
    "over a mini-asyncio kernel (task, futures, call_soon/call_at, loop turns). Proved for all programs of the "
    "shield-free fragment (nested scopes, deadlines, sleeps, checkpoints, scope.cancel/reschedule), all external-cancel "
    "schedules and all run lengths: no blocking operation started under a cancelled scope completes (C13_interrupt, "
    "inductive invariant over callbacks and coroutine micro-steps). Proved for all programs including shields: the "
    "cancelling() accounting invariant (C13_no_leftover). Proved for all states: never-swallow, timeout-iff-caught, "
    "exit undoes exactly its own requests, shield swallow / re-delivery steps. Plus a differential correspondence check "
    "of the model against the real AsyncIOBackend on generated programs (trace equality in virtual time, shields, "
    "try/except and task groups included on the real side), plus a direct oracle of the property's clauses on the real trace."
)
LEVEL_NOTE = (
    "Trusted: Lean kernel; axioms propext, Quot.sound, Classical.choice only. The asyncio kernel (Task.cancel/uncancel/"
    "__step, Future callbacks, asyncio.shield, asyncio.sleep, _run_once order) is modelled, not verified, and tied to "
    "CPython 3.12 by the correspondence check only (sampled). Partial: the interruption theorem for programs WITH shielded "
    "sections is not proved globally (local step theorems + correspondence + oracle only). The clock policy (one tick per "
    "loop turn, FIFO among timers due at the same tick) is one legitimate schedule chosen by the harness. Task-group "
    "children are run against the oracle only (single host task in the model)."
)
TECHNIQUE = ("Lean 4 theorems (inductive invariants over the handle/turn transition system, for all programs and schedules) "
             "+ model/code differential correspondence on a virtual-time loop + clause oracle")
TRUSTED_BASE = [
    "Lean 4.33.0 kernel; axioms allowed: propext, Classical.choice, Quot.sound",
    "hand-written model EasyNet/Model/CancelScope.lean tied to lowlevel/api_async/backend/_asyncio/tasks.py, "
    "abc.py (_timeout_scope, move_on_after, timeout) by this correspondence check (sampled, not proved)",
    "asyncio 3.12 task/future/loop semantics as encoded in the model's kernel (Task.cancel, uncancel, __step, "
    "Future.cancel, shield, sleep, _run_once): modelled, validated by the same correspondence",
    "harness: virtual-time loop (clock policy, FIFO timer ties), program compiler, trace canonicaliser, endriver line parser",
]
ASSUMPTIONS = [
    "one tick of virtual time per loop turn; idle loop jumps to the first timer; timers due at the same tick fire in creation order",
    "a blocking operation is 'unshielded' when no ignore_cancellation() frame encloses it in its task "
    "(scopes opened inside a shielded coroutine cannot interrupt it: observed and modelled behaviour)",
    "timing ties (deadline == start tick of an operation) are accepted either way by the oracle",
]
RULE = (
    "case = program (<= 14 statements, depth <= 4) x external cancel ticks (0-2) x tie position of the external cancel; "
    "three families: the modelled statement set (compared with the Lean model); + operations that fail; + checkpoints of "
    "the task-group / backend API as the place where the cancellation arrives (start, start_soon, __aexit__, Task.wait, "
    "Event / Lock / Condition / run_in_thread / sleep_until / sleep_forever, finally clean-up that shields itself), half "
    "of them directed: such a checkpoint inside a scope whose deadline has passed / passes at every tick / that is "
    "cancelled explicitly / inside a cancelled outer scope, external cancel at every tick, further checkpoints after the scope; "
    "non-trivial = at least one blocking operation raised CancelledError or a cancellation was swallowed by a shield; "
    "class = set of features hit (caught, propagated, shield-swallow, timeout, ext, redelivery, leftover, op-<primitive>); "
    "distinct by full case digest"
)

# the statement set of Model/CancelScope.lean (everything else runs on the real side and is judged by the oracle only)
MODELLED = {"sleep", "yield", "syield", "cancel", "resched", "scope", "endscope", "shield", "endshield", "try", "endtry"}

_fix_probe: dict[str, bool] = {}
_real_hash: dict[str, int] = {}      # case digest -> hash of the real trace (to notice a model/code disagreement)
_model_diff: dict[str, str] = {}     # case digest -> first differing line


def fixed_tree() -> bool:
    """does the code under test undo the cancel calls of a scope that exits without catching (docs/C13-fix-1.patch)?"""
    if "v" not in _fix_probe:
        tr = c13_run.run_program(["scope t 0 0", "syield", "endscope"], [])
        ex = [ln for ln in tr if ln.startswith("exit 0 ")]
        _fix_probe["v"] = bool(ex) and " cancelling=0 " in ex[0]
    return _fix_probe["v"]


def run_real(case: dict) -> list[str]:
    lines = c13_run.run_program(case["prog"], case.get("ext", []), case.get("ext_last", False),
                                futs=case.get("futs"))
    if c13_oracle.completed_under_cancelled_scope(case["prog"], lines):
        lines.append("bad")      # mirrors the model's ghost monitor (C13_interrupt says it never fires)
    _real_hash[core.case_digest(case)] = hash(tuple(lines))
    return lines


def model_post(case: dict, lines: list[str]) -> list[str]:
    d = core.case_digest(case)
    if d in _real_hash and _real_hash[d] != hash(tuple(lines)):
        _model_diff[d] = "model says: " + " / ".join(lines[-4:])
    else:
        _model_diff.pop(d, None)
    return lines


def model_input(case: dict, real: list[str]):
    if any(ln.split()[0] not in MODELLED for ln in case["prog"]):
        # task groups, operations that fail (harness futures, join of a failing child), checkpoints of the task-group /
        # backend API (start, start_soon, Event / Lock / Condition / run_in_thread, …), try/finally: oracle only
        return None
    head = f"cs {int(fixed_tree())} {int(case.get('ext_last', False))} 3000 " + " ".join(str(t) for t in case.get("ext", []))
    return head.strip(), list(case["prog"])


def oracle(case: dict, real: list[str]) -> str | None:
    why = c13_oracle.judge(case, real)
    if why:
        return why
    # The open finding of KNOWN_FINDINGS.txt is hit in every run, and the framework then only *notes* a broken
    # correspondence.  A disagreement between the model and the code on an input where no clause is violated is
    # therefore reported through this channel, clearly labelled (it is a `no-failing-input-found` situation).
    d = _model_diff.get(core.case_digest(case))
    if d:
        return ("M0 correspondence: model and code disagree on this input although no clause of the property is "
                "violated on it (" + d + ")")
    return None


def nontrivial(case: dict, real: list[str]) -> str | None:
    return c13_oracle.features(case, real)


def shrink(case: dict):
    yield from c13_gen.shrink(case)


def known_key(case: dict, real: list[str], why: str) -> str:
    return c13_oracle.key_of(why)


def corpus() -> list[dict]:
    return c13_gen.corpus()


def generate(rng, tier: str, boost: int):
    yield from c13_gen.generate(rng, tier, boost)


def extra_coverage(stats) -> dict:
    return {"model_variant": "fix" if fixed_tree() else "head",
            "not_modelled": "task-group children, operations that fail, checkpoints of the task-group / backend API "
                            "(start, start_soon, Event / Lock / Condition / run_in_thread, ...), try/finally: oracle only"}
