"""
C17 — One client's failure (handler or connection set-up) never affects the others.

real run : the REAL AsyncTCPNetworkServer (plain and TLS) / AsyncUDPNetworkServer on loopback sockets in one asyncio loop
           with a scripted request handler raising an exception tree at a hook position for the faulty client F, while two
           healthy clients H1/H2 exchange requests before, during (H2's request is held inside its handler, H1's is sent
           while the fault fires) and after it, and a NEW client N arrives afterwards           (vlib/c17_run.py)
           + unit cases: one real filter object alone, and CPython's own BaseExceptionGroup.split  (vlib/c17_unit.py)
model run: the same (kind, position, tree) through EasyNet/Model/Iso.lean over the tables the translator regenerates
           from the source on every run (Gen/IsoTables.lean): which filter logged what, what reaches the task group,
           faulty connection closed, hook log, server still serving
oracle   : independent of the model — server still serving, serve task alive, H1/H2/N answered exactly as in a fault-free
           run of the same schedule, faulty TCP connection closed (both ends), on_disconnection exactly once iff
           on_connection completed (never twice), every started generator closed, for UDP a later datagram from the
           faulty address gets a fresh generator; a client that sends malformed input is answered exactly as the
           handler's treatment of the parse error says (valid requests before it served, "bad" + what follows when the
           handler catches it, connection closed + on_disconnection when it re-raises / does not catch it).  Non-Exception leaves (KeyboardInterrupt, SystemExit, CancelledError, a
           BaseException subclass) are outside what the property promises: no oracle (the boundary is C17_taskgroup_unaffected).

case format
  server case : {"kind": "tcp"|"tcp-tls"|"udp", "oc": "coro"|"gen", "sched": "mid"|"late"|"nohold",
                 "eager": bool (the event loop's task factory is asyncio.eager_task_factory),
                 "fault": null | {"pos": <position>, "tree": <tree>, "k": n, "gen": g, "queued": n (UDP h_post: n datagrams
                                 of F are queued behind the one whose handling fails)}}
                position: oc_coro oc_pre oc_post oc_thrown h_pre h_post h_thrown h_gexit od setup tls_hs   (injected tree)
                          rst tls_garbage tls_stall tls_close                                               (real set-up faults)
                tree: "ClassName" | ["g", tree, …] | "@thrown" (re-raise the parse error thrown in) | "@closed_send"
                malformed input sent by the faulty client itself: pos h_thrown | oc_thrown, tree "@thrown" and
                  "bad": {"how": alone | glued (valid+bad in one segment) | glued2 (valid+bad+valid) | bad_first (bad+valid) |
                                 split (bad over two segments) | split_glued (valid+half | rest) | twobad   [UDP: alone | burst],
                          "react": catch (handler answers "bad" and goes on) | reraise | propagate (no except around the yield),
                          "v": valid requests handled before it, "login_glued", "ytimeout" (yield with a timeout),
                          "oc_busy" (data arrives while on_connection runs), "halfclose" (FIN right behind the data)}
                "proto": "copy" (StreamProtocol / recv) | "buffered" (BufferedStreamProtocol / recv_into)      (top level)
  unit case   : {"kind": "unit", "op": "split"|"cls"|"filter", "cls": …, "filter": …, "tree": tree}
  stall case  : {"kind": "stall", "end": h_raise|h_pre|h_return|oc_raise|od_raise|bad|h_timeout|h_close|peer_rst|peer_fin (how the
                 client task of client A ends), "reading": bool (A reads what it is sent / never reads: the >= 128 KiB the server
                 sent stay unacknowledged), "tls": bool, "tree": tree, "tree2": tree (on_disconnection, od_raise), "kib": n,
                 "proto", "eager"}     responsiveness of the server's event loop while A's task ends (vlib/c17_stall.py):
                 a healthy client B goes on exchanging requests, a 10 ms loop heartbeat and the close() of every accepted
                 socket are timed (threshold 1.0 s, confirmed by a re-run); oracle only
  abort case  : {"kind": "abort", "peer": rst|close_unread|fin|halfclose (how the faulty clients A0..A7 terminate),
                 "when": at_connect|after_oc|mid|held (position of the termination in the life of A's client task),
                 "srv": echo|raise|od_raise|close|timeout|raise_pre|return_pre|oc_raise|oc_close (how the server side tears the
                 connection down), "k": requests written right before the termination (unread when the server acts),
                 "tail": requests written BEHIND the trigger request, "tree", "tree2", "tls", "proto", "eager", "reps": 8}
                 abrupt peer termination with data still unread x every server-side tear-down (vlib/c17_abort.py): a healthy
                 client B is served after every faulty client, a new client at the end, nothing escapes serve_forever(); oracle only
"""
from __future__ import annotations

import random
from typing import Any, Iterator

from vlib import core
from vlib import c17_abort as AB
from vlib import c17_run as R
from vlib import c17_stall as ST
from vlib import c17_unit as U

ID = "C17"
CLAIMED = True
TITLE = "One client's failure (handler or connection set-up) never affects the others"
REQUIRED_THEOREMS = ["C17_filter_total", "C17_every_position_guarded", "C17_taskgroup_unaffected",
                     "C17_tcp_closes_and_disconnects", "C17_udp_restarts"]
LEVEL_TEXT = (
    "Machine-checked proof (Lean 4) over tables regenerated from the Python source on every run (exception class order, "
    "every per-client try/except/except* filter, the hook-position -> enclosing-filters nesting map): for every exception "
    "tree of arbitrary shape whose leaves are Exception instances, every per-client outer filter swallows it, hence at every "
    "hook position (on_connection, handle before/after any yield, while handling a thrown error, generator close, "
    "on_disconnection, accepted-socket set-up, TLS handshake; TCP, TCP+TLS, UDP) nothing reaches the server's task group; "
    "conversely whatever reaches it contains a non-Exception leaf; on the TCP epilogue machine the connection ends closed "
    "and on_disconnection runs exactly once iff on_connection completed; on the UDP machine (shared with C16) the client "
    "state is reset so that the next datagram starts a fresh generator and other addresses are untouched. Plus a "
    "differential correspondence check of the model against the real AsyncTCPNetworkServer (plain/TLS) and "
    "AsyncUDPNetworkServer on loopback (full class x position matrix, nested groups, real set-up faults) and against "
    "CPython's own BaseExceptionGroup.split, plus a direct oracle of the property."
)
LEVEL_NOTE = (
    "Trusted: Lean kernel; axioms propext, Quot.sound, Classical.choice only; the translator (AST -> tables; the chain of "
    "functions of the nesting map is declared and each link looked up in the AST) and the hand-written PEP 654 semantics "
    "and epilogue machines, tied to the code by the sampled correspondence check; real sockets, RST timing, OpenSSL and "
    "asyncio.TaskGroup are exercised, not modelled; the exception alphabet is declared (23 classes + groups)."
)
TECHNIQUE = ("Lean 4 theorems (induction over exception trees; decide over source-generated filter tables lifted by lemmas; "
             "exit-stack machine) + translator + fault-injection correspondence on the real servers + direct oracle")
TRUSTED_BASE = [
    "Lean 4.33.0 kernel; axioms allowed: propext, Classical.choice, Quot.sound",
    "translator harness/translate/iso_tables.py (AST -> Gen/IsoTables.lean); its output is cross-checked behaviourally on every "
    "run: each filter alone (unit cases) and each nesting-map entry (which filter logged, fault-injection matrix)",
    "hand-written model EasyNet/Model/Iso.lean (PEP 654 split / except* / except on groups; TCP exit-stack epilogue; UDP via "
    "Model/DgramSrv.lean) tied to servers/async_tcp.py, async_udp.py, misc.py, lowlevel/api_async/servers/*.py, "
    "backend/_asyncio/stream/listener.py, transports/tls.py by this correspondence check (sampled, not proved)",
    "harness: scripted request handlers, loopback clients, log capture, canonicaliser, endriver line parser",
    "CPython 3.12 exception groups / async generators / asyncio.TaskGroup, the kernel's loopback TCP/UDP, OpenSSL: exercised, not modelled",
]
ASSUMPTIONS = [
    "the property promises isolation for Exception-class failures only; KeyboardInterrupt/SystemExit/CancelledError/other "
    "BaseException leaves are the boundary (C17_taskgroup_unaffected) and are excluded from the oracle",
    "exception classes range over the declared alphabet (vlib/c17_run.py ALPHABET) and groups of them",
    "real set-up faults (RST after accept, garbage/stalled/closed TLS handshake) are judged by the oracle only; their timing is not modelled",
    "errno-dependent logging decisions (NOT_CONNECTED errnos) are not modelled: injected OSErrors carry no errno",
    "abrupt peer termination with unread data (kind abort: RST / close with unread answers / FIN / half-close x every server-side "
    "tear-down) is judged by the oracle only: which error the server meets, and whether the hooks run at all, is a race",
]
RULE = (
    "case = [isolation] server kind (tcp, tcp-tls, udp) x fault (exception tree x hook position | real set-up fault) x schedule (H2 held "
    "during the fault or not, H1 in its first/second generator, on_connection as coroutine or generator, k-th request, "
    "generator index, 0-3 datagrams of the faulty UDP address queued behind the failing one, default / eager task factory) "
    "| malformed input sent by the faulty client itself (how it is cut into segments x what the handler "
    "does with the parse error x number of valid requests before x StreamProtocol/BufferedStreamProtocol x while "
    "on_connection runs / yield with a timeout / half-close right behind; UDP: malformed datagram alone or queued behind a "
    "valid one) | [responsiveness] how the task of client A ends (handle raises after / before its first yield, returns "
    "early, on_connection raises, on_disconnection raises too, malformed request, yield time-out, handler closes the client, "
    "peer resets / closes) x peer reading / not reading the >= 128 KiB the server sent x plain / TLS x exception class x "
    "packet size x protocol x task factory | [abrupt termination] how the faulty peer goes away (RST, close with the server's "
    "answers unread, FIN right behind its last requests, half-close) x when (before its client task starts, right after "
    "on_connection, after a served request, while a request is being handled) x how the server side tears the connection down "
    "at that moment (disconnection detected, handle raises / returns / closes the client / times out, on_connection raises / "
    "closes, on_disconnection raises too) x 0-3 requests still unread x requests behind the trigger x plain / TLS x protocol x "
    "task factory x exception class, each x8 faulty clients per server life; quick = every Exception leaf class x every position of the generated nesting map once, + groups "
    "(flat, nested, mixed with ClientClosedError/ConnectionError, with a non-Exception leaf) + real set-up faults + unit cases "
    "(each filter alone, BaseExceptionGroup.split) on generated trees; non-trivial = a fault actually raised (or a unit "
    "case), keyed by kind/position/tree shape/leaf family; distinct by full case digest"
)

TCP_POS = ["oc_coro", "oc_pre", "oc_post", "oc_thrown", "h_pre", "h_post", "h_thrown", "h_gexit", "od", "setup"]
UDP_POS = ["h_pre", "h_post", "h_thrown"]
REAL_SETUP = {"tcp": ["rst"], "tcp-tls": ["rst", "tls_garbage", "tls_stall", "tls_close"]}
UNIT_FILTERS = ["tcp.suppress_and_log", "udp.client_context_aexit", "tls.handler_wrapper"]
SPLIT_CLASSES = ["ClientClosedError", "ConnectionError", "OSError", "Exception", "ValueError", "BaseException", "ExceptionGroup"]


def translate() -> None:
    from translate import iso_tables
    iso_tables.regenerate()


def tie_problems(stats: core.Stats) -> list[str]:
    from translate import iso_tables
    global _bulk
    # (called once, between the bulk evaluation and the verdict phase.  core also calls known_key() at the end of every
    # evaluated batch: flipping the flag there switched the circuit breakers off from the second batch on)
    _bulk = False
    out = []
    if iso_tables.last_error:
        out.append("translator: the source no longer has the shape the nesting map expects: " + iso_tables.last_error)
    if INFRA and not stats.oracle_violations:
        # a stall of the event loop that did not show up again when the same case was re-run, or a kernel that did not take
        # the big packet: an infrastructure problem, never a verdict (exit 2) — unless real violations were found as well
        raise core.InfraError(INFRA[0][:400])
    return out


# ----------------------------------------------------------------------------------------------------------------------
# running
# ----------------------------------------------------------------------------------------------------------------------
def positions(kind: str) -> list[str]:
    if kind == "udp":
        return UDP_POS
    return TCP_POS + (["tls_hs"] if kind == "tcp-tls" else [])


def oc_for(pos: str, want: str) -> str:
    if pos == "oc_coro":
        return "coro"
    if pos in ("oc_pre", "oc_post", "oc_thrown"):
        return "gen"
    return want


MAX_SERVER_VIOLATIONS = 10      # circuit breaker: with a broken server every further case fails the same (slow) way
_server_violations = 0
_bulk = True                    # False once the verdict phase (shrinking / replay files) has begun: never skip there
SKIPPED = "skipped: enough oracle violations already"


MAX_STALL_VIOLATIONS = 3        # (every stalling case costs two stalls of several seconds)
_stall_violations = 0
MAX_ABORT_VIOLATIONS = 12       # (own breaker: the abort cases come early and must not use up the budget of the server cases)
_abort_violations = 0
INFRA: list[str] = []


def run_real(case: dict) -> list[str]:
    if case["kind"] == "unit":
        return U.run_unit(case)
    global _server_violations, _stall_violations, _abort_violations
    if case["kind"] == "abort":
        if _bulk and _abort_violations >= MAX_ABORT_VIOLATIONS:
            return [SKIPPED]
        lines = AB.run_case(case)
        if _bulk and _oracle(case, lines):
            _abort_violations += 1
        return lines
    if case["kind"] == "stall":
        if _bulk and _stall_violations >= MAX_STALL_VIOLATIONS:
            return [SKIPPED]
        lines = ST.run_case(case)
        if _bulk and _oracle(case, lines):
            _stall_violations += 1
        return lines
    if _bulk and _server_violations >= MAX_SERVER_VIOLATIONS:
        return [SKIPPED]
    lines = R.run_case(case)
    if _bulk and _oracle(case, lines):
        _server_violations += 1
    return lines


_baseline: dict[str, list[str]] = {}


def baseline(case: dict) -> list[str]:
    key = f"{case['kind']}/{case.get('oc', 'coro')}/{case.get('sched', 'mid')}/{case.get('proto', 'copy')}/{int(bool(case.get('eager')))}"
    if key not in _baseline:
        b = dict(case)
        b["fault"] = None
        lines = R.run_case(b)
        if any(x.startswith("harness-timeouts") for x in lines):
            raise core.InfraError("C17: the fault-free baseline run timed out")
        _baseline[key] = lines
    return _baseline[key]


def after_batch() -> None:
    R.reset_loop()
    U._server = None


def _eff_tree(case: dict) -> Any:
    f = case["fault"]
    t = f["tree"]
    if t == "@thrown":
        return "DatagramProtocolParseError" if case["kind"] == "udp" else "StreamProtocolParseError"
    if t == "@closed_send":
        return "ClientClosedError"
    if f["pos"] == "tls_garbage":
        return "SSLError"
    if f["pos"] == "tls_stall":
        return "TimeoutError"
    return t


def model_input(case: dict, real: list[str]):
    if real == [SKIPPED]:
        return None
    if case["kind"] in ("stall", "abort"):
        return None         # responsiveness / abrupt peer termination: oracle only
    if case["kind"] == "unit":
        toks = " ".join(R.tree_tokens(case["tree"]))
        if case["op"] == "split":
            return "iso unit -", [f"split {case['cls']} {toks}"]
        if case["op"] == "cls":
            return "iso unit -", [f"cls {toks}"]
        return "iso unit -", [f"filter {case['filter']} {toks}"]
    f = case.get("fault")
    if not f or f["pos"] in ("rst", "tls_close"):
        return None
    if (f.get("bad") or {}).get("react") == "catch":
        return None         # the handler deals with the parse error itself: nothing is raised, nothing for the model to say
    pos = "tls_hs" if f["pos"] in ("tls_garbage", "tls_stall") else f["pos"]
    toks = " ".join(R.tree_tokens(_eff_tree(case)))
    return f"iso {case['kind']} {case.get('oc', 'coro')}", [f"fault {pos} {f.get('k', 1)} {f.get('gen', 1)} {toks}"]


def _many_queued(case: dict) -> bool:
    """UDP, two or more datagrams queued behind the failing one: they use up the fresh generator (2 requests each), so the
    number of generators F ends up with is not the one the model's hook log (written for at most one) predicts"""
    f = case.get("fault") or {}
    return case.get("kind") == "udp" and f.get("pos") == "h_post" and int(f.get("queued", 0)) >= 2


def model_post(case: dict, lines: list[str]) -> list[str]:
    if _many_queued(case):
        return [x for x in lines if not x.startswith("hooks ")]
    return lines


def real_for_diff(case: dict, real: list[str]) -> list[str]:
    if case["kind"] == "unit":
        return real
    if _many_queued(case):
        real = [x for x in real if not x.startswith("hooks ")]
    out = [x for x in real if x.startswith("log ")]
    for x in real:
        if x.startswith("serve-end "):
            out.append("taskgroup unaffected" if x == "serve-end clean" else
                       "taskgroup got " + x.split("exc=", 1)[1] if "exc=" in x else "taskgroup " + x)
    for prefix in ("faulty-conn ", "hooks ", "faulty-fresh ", "serving "):
        out.extend(x for x in real if x.startswith(prefix))
    return out


# ----------------------------------------------------------------------------------------------------------------------
# oracle
# ----------------------------------------------------------------------------------------------------------------------
def _get(lines: list[str], prefix: str) -> str | None:
    for x in lines:
        if x.startswith(prefix):
            return x[len(prefix):]
    return None


def promised(case: dict) -> bool:
    """does the property promise anything for this case (every leaf an Exception)?"""
    if case["kind"] == "unit":
        return R.is_exception_tree(case["tree"])
    if case["kind"] in ("stall", "abort"):
        return all(R.is_exception_tree(case[k]) for k in ("tree", "tree2") if case.get(k))
    f = case.get("fault")
    if not f or f.get("tree") is None or isinstance(f["tree"], str) and f["tree"].startswith("@"):
        return True
    return R.is_exception_tree(f["tree"])


def oracle(case: dict, real: list[str]) -> str | None:
    return _oracle(case, real)


def _oracle(case: dict, real: list[str]) -> str | None:
    if real == [SKIPPED]:
        return None
    if any(x.startswith("harness-exc") for x in real):
        return "the harness crashed: " + real[0]
    if not promised(case):
        return None
    if case["kind"] == "unit":
        if case["op"] == "filter" and _get(real, "out ") != "swallowed":
            return f"filter {case['filter']} lets an Exception tree escape: {_get(real, 'out ')}"
        return None
    if case["kind"] == "stall":
        return _oracle_stall(case, real)
    if case["kind"] == "abort":
        return _oracle_abort(case, real)
    base = baseline(case)
    f = case.get("fault")
    if _get(real, "serving ") != "1":
        return "the server is no longer serving after one client's failure"
    if _get(real, "servetask ") != "running":
        return "serve_forever() ended after one client's failure"
    if _get(real, "serve-end ") != "clean":
        return "serve_forever() raised at shutdown: " + str(_get(real, "serve-end "))
    to = _get(real, "harness-timeouts ")
    if to is not None:
        return f"no answer within the (retried, 8 s) bound while the server is alive: {to}"
    for who in ("h1 ", "h2 ", "new "):
        if _get(real, who) != _get(base, who):
            return f"healthy client {who.strip()} was not served as in a fault-free run: {_get(real, who)!r} vs {_get(base, who)!r}"
    if _get(real, "healthy-hooks ") != "ok":
        return "hooks of a healthy client disturbed: " + str(_get(real, "healthy-hooks "))
    if not f:
        return None
    hooks = (_get(real, "hooks ") or "-").split()
    if f["pos"] not in ("rst", "tls_garbage", "tls_stall", "tls_close") and _get(real, "fault-raised ") != "1":
        if f.get("bad"):
            return "the parse error of the malformed packet was never thrown into the faulty client's handler"
        return "the faulty client never reached the hook position"
    if f.get("bad"):
        want = expected_faulty(case)
        got = (_get(real, "faulty ") or "").split()
        if case["kind"] == "udp":
            got = got[:-1]          # (the trailing `again` is judged below)
        if got != want:
            return (f"the faulty client (malformed input {f['bad'].get('how')}, handler {f['bad'].get('react')}) was answered "
                    f"{got}, expected {want}")
    if case["kind"] == "udp":
        if _get(real, "faulty-fresh ") != "1":
            return "a later datagram from the faulty address did not start a fresh handler"
        ans = (_get(real, "faulty ") or "").split()
        if not ans or not ans[-1].startswith("pong_again"):
            return f"the faulty address is no longer served: {ans}"
        nq = int(f.get("queued", 0)) if f["pos"] == "h_post" else 0
        if nq and [a.split("_g")[0] for a in ans[-1 - nq:-1]] != [f"pong_q{i + 1}" for i in range(nq)]:
            return f"datagrams queued behind the failed one were not handled in order by a fresh handler: {ans}"
    else:
        if _get(real, "faulty-conn ") != "closed":
            return "the faulty client's connection was not closed: " + str(_get(real, "faulty-conn "))
        if _get(real, "faulty-server-socket ") not in (None, "closed"):
            return "the server kept the faulty client's socket open"
        n_od = hooks.count("on_disconnection")
        if "on_connection:done" in hooks:
            if n_od != 1:
                return f"on_connection completed but on_disconnection ran {n_od} times"
        elif n_od != 0:
            return f"on_disconnection ran {n_od} times although on_connection did not complete"
    starts = sum(1 for h in hooks if h.startswith("handle:start"))
    ends = sum(1 for h in hooks if h.startswith("handle:closed"))
    if starts != ends:
        return f"{starts} handle generators started, {ends} closed"
    return None


def _oracle_stall(case: dict, real: list[str]) -> str | None:
    """"other clients are served unaffected": while client A's task ends (any way) the server goes on serving B at once —
    the event loop is never blocked for a second or more —, B and a new client are answered exactly, A's connection is
    closed at both ends, on_disconnection ran once iff on_connection completed, the server is still serving"""
    if real and real[0].startswith("infra"):
        INFRA.append("C17 " + real[0])
        return None
    g = lambda p: _get(real, p)  # noqa: E731
    what = (f"client A's task ended ({case['end']}" + (f" {R.tree_text(case['tree'])}" if case["end"] in ST.RAISING_ENDS and case.get("tree") else "")
            + f", peer {'reading' if case.get('reading') else 'NOT reading'}, {'TLS' if case.get('tls') else 'plain TCP'})")
    lg, outq = g("linger-at-close "), g("outq-at-close ")
    if g("hb-gap ") == "long" or g("close-block ") == "long":
        return (f"the server's event loop was blocked for {ST.LONG} s or more (seen twice: first run and re-run of the same case) while {what}: "
                f"10 ms heartbeat gap {g('hb-gap ')}, socket.close() of an accepted socket in the loop thread {g('close-block ')}; "
                f"A's socket was closed with SO_LINGER {lg}, unsent data {outq} — every other client, the accept loop and all timers were frozen")
    if lg and lg.startswith("on:") and lg[3:].isdigit() and int(lg[3:]) > 0 and outq == "pending" and g("closed-in-loop ") == "1" \
            and not case.get("reading"):
        return (f"A's socket, holding data the peer does not acknowledge, was closed inside the event-loop thread with SO_LINGER on and a "
                f"{lg[3:]} s time-out: close(2) blocks the loop (all other clients) for that long while {what}")
    to = g("harness-timeouts ")
    if g("serving ") != "1":
        return f"the server is no longer serving after {what}"
    if g("servetask ") != "running":
        return f"serve_forever() ended after {what}"
    if g("serve-end ") != "clean":
        return "serve_forever() raised at shutdown: " + str(g("serve-end "))
    if g("b ") != "ok":
        return f"healthy client B was not served as if nothing had happened while {what}: {g('b ')!r}" + (f" (bounds expired: {to})" if to else "")
    if g("new ") != "ok":
        return f"a new client was not served after {what}: {g('new ')!r}"
    if g("healthy-hooks ") != "ok":
        return "hooks of a healthy client disturbed: " + str(g("healthy-hooks "))
    if g("fault-reached ") != "1":
        if g("big-sent ") != "1":
            INFRA.append(f"C17 stall case: the kernel did not take the {case.get('kib', 128)} KiB packet (send queue too small?)")
            return None
        return f"client A never reached the point where its task ends ({case['end']})"
    if to is not None:
        return f"no answer within the (retried, 12 s) bound while the server is alive: {to}"
    if g("a-server-socket ") != "closed":
        return f"the server kept client A's socket open after {what}"
    if g("a-end ") != "closed":
        return f"client A's connection was not closed after {what}"
    hooks = (g("a-hooks ") or "-").split()
    n_od = hooks.count("od")
    if "oc:done" in hooks:
        if n_od != 1:
            return f"on_connection completed but on_disconnection ran {n_od} times ({case['end']})"
    elif n_od != 0:
        return f"on_disconnection ran {n_od} times although on_connection did not complete ({case['end']})"
    return None


def abort_text(case: dict) -> str:
    peer = {"rst": "resets its connection (SO_LINGER 0)", "close_unread": "closes with the server's answer unread (the kernel sends a RST)",
            "fin": "closes right behind its last writes", "halfclose": "half-closes (SHUT_WR) right behind its last writes"}[case["peer"]]
    when = {"at_connect": "before the server has started its client task", "after_oc": "as soon as on_connection() has completed",
            "mid": "after a first request was answered", "held": "while a request is being handled"}[case["when"]]
    srv = {"echo": "handle() answers every request (the disconnection is detected)", "raise": "handle() raises " + R.tree_text(case.get("tree") or "RuntimeError"),
           "od_raise": "handle() raises " + R.tree_text(case.get("tree") or "RuntimeError") + " and on_disconnection() raises too",
           "close": "handle() closes the client itself", "timeout": "handle() waits for each request with a time-out",
           "raise_pre": "handle() raises " + R.tree_text(case.get("tree") or "RuntimeError") + " before its first yield",
           "return_pre": "handle() returns before its first yield",
           "oc_raise": "on_connection() raises " + R.tree_text(case.get("tree") or "RuntimeError"),
           "oc_close": "on_connection() closes the client"}[case["srv"]]
    return (f"a peer {peer} {when}, with {int(case.get('k', 0))} request(s) just written"
            + (f" ({int(case['tail'])} behind the one that makes the handler fail)" if case.get("tail") else "")
            + f"; server side: {srv}; {'TLS' if case.get('tls') else 'plain TCP'}"
            + (", eager task factory" if case.get("eager") else "") + f"; {int(case.get('reps', AB.REPS))} such clients one after the other")


def _oracle_abort(case: dict, real: list[str]) -> str | None:
    """whatever goes wrong on one client's side — here: the peer is gone, abruptly, with data the server has not read yet, at
    the very moment the server side tears the connection down — the server keeps running and the other clients are served
    unaffected: B answered after every faulty client, a new client served, nothing escapes serve_forever(); every faulty
    client's socket closed by the server, on_disconnection once iff on_connection completed, no wrong answer to A"""
    if real and real[0].startswith("infra"):
        INFRA.append("C17 abort case: " + real[0])
        return None
    g = lambda p: _get(real, p)  # noqa: E731
    what = abort_text(case)
    how = f" (serve_forever() ended with {g('serve-exc ')})" if g("serve-exc ") else ""
    if g("serving ") != "1":
        return f"the server is no longer serving after one client's failure{how}: {what}"
    if g("servetask ") != "running":
        return f"serve_forever() ended after one client's failure{how}: {what}"
    if g("serve-end ") != "clean":
        return "serve_forever() raised at shutdown: " + str(g("serve-end ")) + ": " + what
    to = g("harness-timeouts ")
    if g("b ") != "ok":
        return f"healthy client B was not served as if nothing had happened: {g('b ')!r}" + (f" (bounds expired: {to})" if to else "") + ": " + what
    if g("new ") != "ok":
        return f"a new client was not served afterwards: {g('new ')!r}: {what}"
    if g("healthy-hooks ") != "ok":
        return "hooks of a healthy client disturbed: " + str(g("healthy-hooks "))
    if to is not None:
        return f"no answer within the (retried, 12 s) bound while the server is alive: {to}: {what}"
    n, m = (g("a-connected ") or "0/0").split("/")
    if n != m:
        return f"only {n} of the {m} faulty clients could connect although the server is alive: {what}"
    n, m = (g("a-server-sockets-closed ") or "0/0").split("/")
    if n != m:
        return f"the server closed the socket of only {n} of the {m} terminated clients: {what}"
    if g("a-hooks ") != "ok":
        return f"on_disconnection must run exactly once iff on_connection completed, but: {g('a-hooks ')}: {what}"
    if g("a-answers ") != "ok":
        return (f"a terminating client was answered something else than the handler's script says ({' '.join(AB.expected_answers(case)) or 'nothing'}"
                f"{', exactly' if case['peer'] == 'halfclose' and case['srv'] == 'echo' else ', or a prefix of it'}): {g('a-answers ')}: {what}")
    return None


def expected_faulty(case: dict) -> list[str]:
    """answers the faulty client must get when it sends malformed input: every valid request before the malformed packet
    is answered by the generator it belongs to (2 requests per generator); a handler that catches the parse error
    answers "bad" and goes on with what follows (same segment or later); otherwise nothing more is answered"""
    f = case["fault"]
    b = f["bad"]
    catch = b.get("react") == "catch"
    udp = case["kind"] == "udp"
    _head, _final, packets = R.bad_script(case)
    packets = list(packets)
    if catch and not udp and not (b.get("halfclose") and case["kind"] == "tcp"):
        if f["pos"] == "oc_thrown" and b.get("how") != "bad_first":
            packets.append(("v", "login-F"))
        packets.append(("v", "fz"))
    oc_done = udp or case.get("oc", "coro") != "gen"
    ans: list[str] = []
    nv = 0
    for kind, text in packets:
        if kind == "b":
            if not catch:
                break
            ans.append("bad")
        elif not oc_done:
            ans.append(f"welcome_{text}")
            oc_done = True
        else:
            nv += 1
            ans.append(f"pong_{text}_g{(nv - 1) // 2 + 1}")
    return ans


def _shape(t: Any) -> str:
    if isinstance(t, str):
        return "leaf"
    return "nested" if any(not isinstance(c, str) for c in t[1:]) else "group"


def _family(t: Any) -> str:
    if isinstance(t, str) and t.startswith("@"):
        return t
    ls = set(R.leaves(t))
    fam = []
    if ls & {"ClientClosedError"}:
        fam.append("closed")
    if ls & {"ConnectionError", "ConnectionResetError", "BrokenPipeError"}:
        fam.append("conn")
    if ls & set(R.BASE_LEAVES):
        fam.append("base")
    if ls - {"ClientClosedError", "ConnectionError", "ConnectionResetError", "BrokenPipeError"} - set(R.BASE_LEAVES):
        fam.append("exc")
    return "+".join(fam)


def nontrivial(case: dict, real: list[str]) -> str | None:
    if real == [SKIPPED]:
        return None
    if case["kind"] == "unit":
        return f"unit/{case['op']}/{case.get('filter', case.get('cls', '-'))}/{_shape(case['tree'])}"
    if case["kind"] == "stall":
        if _get(real, "fault-reached ") != "1":
            return None
        return (f"stall{'+tls' if case.get('tls') else ''}{'+eager' if case.get('eager') else ''}/{case['end']}/"
                f"{'reading' if case.get('reading') else 'notreading'}/{case.get('proto', 'copy')}/"
                + (f"{_shape(case['tree'])}/{_family(case['tree'])}" if case["end"] in ST.RAISING_ENDS and case.get("tree") else "-")
                + f"/outq={_get(real, 'outq-at-close ')}")
    if case["kind"] == "abort":
        if real and real[0].startswith("infra") or (_get(real, "a-connected ") or "0/").startswith("0/"):
            return None
        return (f"abort{'+tls' if case.get('tls') else ''}{'+eager' if case.get('eager') else ''}/{case['peer']}/{case['when']}/{case['srv']}/"
                f"k{int(case.get('k', 0))}t{int(case.get('tail', 0))}/{case.get('proto', 'copy')}/"
                + (f"{_shape(case['tree'])}/{_family(case['tree'])}" if case.get("tree") else "-")
                + ("/reached" if _get(real, "fault-reached ") not in (None, "0") else "/raced"))
    f = case.get("fault")
    if not f:
        return None
    kind = case["kind"] + ("+eager" if case.get("eager") else "")
    if f.get("tree") is None:
        return f"{kind}/{f['pos']}"
    if _get(real, "fault-raised ") != "1":
        return None
    if f.get("bad"):
        b = f["bad"]
        extras = "+".join(k for k in ("login_glued", "ytimeout", "oc_busy", "halfclose") if b.get(k)) or "plain"
        return f"{kind}/bad/{f['pos']}/{b.get('how')}/{b.get('react')}/{case.get('proto', 'copy')}/{extras}"
    return f"{kind}/{f['pos']}/{_shape(f['tree'])}/{_family(f['tree'])}" + (f"/queued{f['queued']}" if f.get("queued") else "")


def known_key(case: dict, real: list[str], why: str) -> str:
    if case["kind"] == "unit":
        return f"unit,{case['op']},{case.get('filter', '-')}"
    if case["kind"] == "stall":
        # (one replay per clause: every stalling case costs seconds)
        clause = "loop-blocked" if "event loop was blocked" in why else "linger-timeout" if "SO_LINGER on" in why else \
            "-".join(why.replace("(", " ").split()[:5])
        return f"stall,tls={int(bool(case.get('tls')))},{clause}"
    if case["kind"] == "abort":
        clause = "server-down" if ("no longer serving" in why or "serve_forever() ended" in why) else "-".join(why.replace("(", " ").split()[:5])
        return f"abort,tls={int(bool(case.get('tls')))},peer={case['peer']},srv={case['srv']},{clause}"
    f = case.get("fault") or {}
    if case.get("eager"):
        case = {**case, "kind": case["kind"] + "+eager"}
    if f.get("bad"):
        return f"kind={case['kind']},pos={f.get('pos')},bad={f['bad'].get('how')}/{f['bad'].get('react')},proto={case.get('proto', 'copy')}"
    return f"kind={case['kind']},pos={f.get('pos')},leaf={'+'.join(sorted(set(R.leaves(f['tree'])))) if f.get('tree') and not str(f['tree']).startswith('@') else f.get('tree')}"


def shrink(case: dict) -> Iterator[dict]:
    if case["kind"] == "unit":
        t = case["tree"]
        if not isinstance(t, str):
            for c in t[1:]:
                if case["op"] != "split" or not isinstance(c, str):
                    yield {**case, "tree": c}
            if len(t) > 2:
                for i in range(1, len(t)):
                    yield {**case, "tree": t[:i] + t[i + 1:]}
        return
    if case["kind"] == "stall":
        # (few candidates: a stalling case takes seconds, twice)
        if case.get("eager") or case.get("proto", "copy") != "copy" or int(case.get("kib", 128)) != 128:
            yield {k: v for k, v in case.items() if k not in ("eager", "proto", "kib")}
        if not isinstance(case.get("tree"), str) and case.get("tree"):
            yield {**case, "tree": R.leaves(case["tree"])[0]}
        return
    if case["kind"] == "abort":
        cands = []
        if case.get("eager") or case.get("proto", "copy") != "copy":
            cands.append({k: v for k, v in case.items() if k not in ("eager", "proto")})
        if case.get("tls"):
            cands.append({k: v for k, v in case.items() if k != "tls"})
        if case.get("tail"):
            cands.append({k: v for k, v in case.items() if k != "tail"})
        for k2 in ("tree", "tree2"):
            if case.get(k2) and not isinstance(case[k2], str):
                cands.append({**case, k2: R.leaves(case[k2])[0]})
        if int(case.get("k", 0)) > 1:
            cands.append({**case, "k": 1})
        if int(case.get("k", 0)) == 1:
            cands.append({**case, "k": 0})
        for c in cands:
            if AB.valid(c):
                yield c
        return
    f = case.get("fault")
    if not f:
        return
    if case.get("sched", "mid") != "nohold":
        yield {**case, "sched": "nohold"}
    if case.get("eager"):
        yield {k: v for k, v in case.items() if k != "eager"}
    if f.get("bad"):
        b = f["bad"]
        for k2 in ("ytimeout", "oc_busy", "halfclose", "login_glued"):
            if b.get(k2):
                yield {**case, "fault": {**f, "bad": {**b, k2: False}}}
        v = int(b.get("v", 0))
        vmin = 1 if b.get("how") in ("glued", "glued2", "split_glued", "burst") else 0
        if f["pos"] != "oc_thrown" and v - 2 >= vmin:
            yield {**case, "fault": {**f, "gen": (v - 2) // 2 + 1, "bad": {**b, "v": v - 2}}}
        if case.get("oc") == "gen" and f["pos"] != "oc_thrown":
            yield {**case, "oc": "coro", "fault": {**f, "bad": {**b, "login_glued": False}}}
        return
    if f.get("gen", 1) > 1:
        yield {**case, "fault": {**f, "gen": 1}}
    if f.get("k", 1) > 1:
        yield {**case, "fault": {**f, "k": 1}}
    if f.get("queued"):
        yield {**case, "fault": {**f, "queued": 0}}
        if int(f["queued"]) > 1:
            yield {**case, "fault": {**f, "queued": 1}}
    t = f.get("tree")
    if t is not None and not isinstance(t, str):
        for c in t[1:]:
            yield {**case, "fault": {**f, "tree": c}}
        if len(t) > 2:
            for i in range(1, len(t)):
                yield {**case, "fault": {**f, "tree": t[:i] + t[i + 1:]}}


# ----------------------------------------------------------------------------------------------------------------------
# generation
# ----------------------------------------------------------------------------------------------------------------------
def rand_tree(rng: random.Random, depth: int, pool: list[str], width: int = 3) -> Any:
    if depth <= 0 or rng.random() < 0.35:
        return rng.choice(pool)
    return ["g"] + [rand_tree(rng, depth - 1, pool, width) for _ in range(rng.randint(1, width))]


def group_trees(rng: random.Random, pool: list[str]) -> list[Any]:
    a, b, c = rng.choice(pool), rng.choice(pool), rng.choice(pool)
    return [
        ["g", a],
        ["g", "ClientClosedError", b],
        ["g", "ConnectionResetError", "ClientClosedError"],
        ["g", ["g", "ClientClosedError", a], ["g", "BrokenPipeError"], c],
        ["g", ["g", ["g", b]], a],
        rand_tree(rng, 3, pool) if True else a,
    ]


def server_case(kind: str, pos: str, tree: Any, rng: random.Random, **kw: Any) -> dict:
    oc = oc_for(pos, kw.get("oc") or rng.choice(["coro", "gen"]))
    c: dict = {"kind": kind, "sched": kw.get("sched") or rng.choice(["mid", "mid", "late", "nohold"])}
    if kind != "udp":
        c["oc"] = oc
    f: dict = {"pos": pos, "tree": tree}
    if pos == "h_post":
        f["k"] = kw.get("k") or rng.choice([1, 1, 2])
    if pos in ("h_pre", "h_post", "h_thrown"):
        f["gen"] = kw.get("gen") or rng.choice([1, 1, 2])
    if kind == "udp" and pos == "h_post" and (kw.get("queued") or rng.random() < 0.4) and \
            (isinstance(tree, str) and tree.startswith("@") or R.is_exception_tree(tree)):
        # (with a non-Exception leaf the re-spawn races with the death of the task group: not generated)
        f["queued"] = int(kw.get("queued") or rng.choice([1, 1, 2, 3]))
    c["fault"] = f
    _draw_eager(c, rng, kw)
    return c


EAGER_SHARE = 0.2


def _draw_eager(c: dict, rng: random.Random, kw: dict) -> None:
    """(own draw, last) a fifth of the server cases run on a loop that creates its tasks with asyncio.eager_task_factory;
    only where the property promises something (every leaf an Exception): with a non-Exception leaf the order in which the
    dying task group and the eagerly started tasks see each other is not the model's"""
    want = kw.get("eager")
    if want is None:
        want = rng.random() < EAGER_SHARE
    f = c.get("fault") or {}
    t = f.get("tree")
    if want and (t is None or isinstance(t, str) and t.startswith("@") or R.is_exception_tree(t)):
        c["eager"] = True


def bad_case(kind: str, pos: str, how: str, react: str, rng: random.Random, **kw: Any) -> dict:
    """the faulty client sends malformed input (vlib/c17_run.bad_script)"""
    udp = kind == "udp"
    vmin = 1 if how in ("glued", "glued2", "split_glued", "burst") else 0
    v = kw["v"] if kw.get("v") is not None else rng.choice([x for x in (0, 1, 1, 2, 3) if x >= vmin])
    if pos == "oc_thrown":
        v = 0
    c: dict = {"kind": kind, "sched": kw.get("sched") or rng.choice(["mid", "mid", "late", "nohold"])}
    b: dict = {"how": how, "react": react, "v": v}
    if not udp:
        c["oc"] = "gen" if pos == "oc_thrown" else (kw.get("oc") or rng.choice(["coro", "gen"]))
        c["proto"] = kw.get("proto") or rng.choice(["copy", "buffered"])
        n_single = v - (1 if how in ("glued", "glued2", "split_glued") else 0)
        if pos != "oc_thrown" and c["oc"] == "gen" and n_single == 0 and kw.get("login_glued", rng.random() < 0.5):
            b["login_glued"] = True
        if kw.get("ytimeout", rng.random() < 0.25):
            b["ytimeout"] = True
        head_empty = pos == "oc_thrown" or (n_single == 0 and (c["oc"] == "coro" or b.get("login_glued")))
        if head_empty and kw.get("oc_busy", rng.random() < 0.4):
            b["oc_busy"] = True
        if kind == "tcp" and kw.get("halfclose", rng.random() < 0.2):
            b["halfclose"] = True
    c["fault"] = {"pos": pos, "tree": "@thrown", "gen": v // 2 + 1, "bad": b}
    _draw_eager(c, rng, kw)
    return c


def bad_matrix(rng: random.Random) -> Iterator[dict]:
    for kind in ("tcp", "tcp-tls"):
        for proto in ("copy", "buffered"):
            for react in ("catch", "reraise", "propagate"):
                for how in R.BAD_HOWS_TCP:
                    yield bad_case(kind, "h_thrown", how, react, rng, proto=proto)
                for how in R.BAD_HOWS_OC:
                    yield bad_case(kind, "oc_thrown", how, react, rng, proto=proto)
    for react in ("catch", "reraise", "propagate"):
        for how in R.BAD_HOWS_UDP:
            for v in ((0, 1, 2) if how == "alone" else (1, 2, 3)):
                yield bad_case("udp", "h_thrown", how, react, rng, v=v)


def eager_block(rng: random.Random) -> Iterator[dict]:
    leaf = lambda: rng.choice(["ValueError", "UserError", "Exception", "RuntimeError", "OSError", "ClientClosedError"])  # noqa: E731
    for queued in (1, 2, 3):
        for gen, k in ((1, 1), (1, 2), (2, 1)):
            yield server_case("udp", "h_post", leaf() if queued != 2 else ["g", leaf(), "ClientClosedError"], rng,
                              sched=rng.choice(["mid", "late", "nohold"]), queued=queued, gen=gen, k=k, eager=True)
    for pos in UDP_POS:
        yield server_case("udp", pos, leaf(), rng, sched="mid", eager=True)
    yield bad_case("udp", "h_thrown", "burst", "reraise", rng, v=1, sched="mid", eager=True)
    yield bad_case("udp", "h_thrown", "burst", "catch", rng, v=2, sched="nohold", eager=True)
    yield bad_case("udp", "h_thrown", "alone", "propagate", rng, v=1, sched="mid", eager=True)
    for kind in ("tcp", "tcp-tls"):
        for pos in ("oc_coro", "h_pre", "h_post", "h_gexit", "od", "setup"):
            yield server_case(kind, pos, leaf(), rng, sched=rng.choice(["mid", "late"]), eager=True)
        yield bad_case(kind, "h_thrown", "glued", "reraise", rng, v=1, proto="copy", sched="mid", eager=True)
        yield bad_case(kind, "h_thrown", "glued2", "catch", rng, v=2, proto="buffered", sched="mid", eager=True)
    yield server_case("tcp-tls", "tls_hs", leaf(), rng, sched="mid", eager=True)


def stall_case(end: str, reading: bool, tls: bool, rng: random.Random, **kw: Any) -> dict:
    """responsiveness of the loop while client A's task ends (vlib/c17_stall.py)"""
    c: dict = {"kind": "stall", "end": end, "reading": bool(reading), "tls": bool(tls)}
    if end in ST.RAISING_ENDS:
        c["tree"] = kw.get("tree") or rng.choice(R.EXC_LEAVES)
    if end == "od_raise":
        c["tree2"] = kw.get("tree2") or rng.choice(R.EXC_LEAVES)
    kib = kw.get("kib") or rng.choice([128, 128, 160, 192, 256])
    if kib != 128:
        c["kib"] = kib
    if kw.get("proto", rng.choice(["copy", "copy", "buffered"])) == "buffered":
        c["proto"] = "buffered"
    if kw.get("eager", rng.random() < 0.15):
        c["eager"] = True
    return c


def stall_smoke(rng: random.Random) -> Iterator[dict]:
    yield stall_case("h_raise", False, False, rng, tree="RuntimeError", kib=128, proto="copy", eager=False)
    yield stall_case("oc_raise", False, False, rng, tree="ValueError", kib=128, proto="copy", eager=False)
    yield stall_case("bad", False, False, rng, kib=128, proto="buffered", eager=False)
    yield stall_case("h_raise", True, False, rng, tree="OSError", kib=256, proto="copy", eager=False)
    yield stall_case("od_raise", False, True, rng, tree="UserError", tree2="ConnectionResetError", kib=128, proto="copy", eager=False)


def stall_matrix(rng: random.Random, thorough: bool) -> Iterator[dict]:
    # every way a client task can end x peer reading / not reading x plain / TLS
    for tls in (False, True):
        for reading in (False, True):
            for end in ST.ENDS:
                if tls and not reading and not thorough and end not in ("h_raise", "oc_raise", "bad", "h_close", "peer_rst", "od_raise"):
                    continue        # (TLS, peer not reading: the server waits ssl_shutdown_timeout for the close_notify — 0.2 s each)
                yield stall_case(end, reading, tls, rng)
    # every exception class at every raising position, peer not reading, plain TCP; groups
    for end in ST.RAISING_ENDS:
        leaves = list(R.EXC_LEAVES)
        rng.shuffle(leaves)
        for leaf in leaves:
            yield stall_case(end, False, False, rng, tree=leaf, **({"tree2": rng.choice(leaves)} if end == "od_raise" else {}))
        for t in group_trees(rng, R.EXC_LEAVES)[: (6 if thorough else 3)]:
            yield stall_case(end, False, False, rng, tree=t)
    for _ in range(60 if thorough else 10):
        yield stall_case(rng.choice(ST.ENDS), rng.random() < 0.4, rng.random() < 0.25, rng, kib=rng.choice([128, 256, 384, 512]),
                         eager=rng.random() < 0.5)


def abort_case(peer: str, when: str, srv: str, rng: random.Random, **kw: Any) -> dict | None:
    """abrupt peer termination with unread data x server-side tear-down (vlib/c17_abort.py); None: not a valid combination"""
    k = kw.get("k")
    if k is None:
        k = rng.choice([1, 1, 2, 3] if srv in AB.TRIGGER_SRVS and when != "held" else [0, 1, 1, 2, 3])
    c: dict = {"kind": "abort", "peer": peer, "when": when, "srv": srv, "k": int(k)}
    tail = kw.get("tail")
    if tail is None:
        tail = rng.choice([0, 0, 1, 2]) if srv in AB.TRIGGER_SRVS else 0
    if tail:
        c["tail"] = int(tail)
    if srv in AB.TREE_SRVS:
        c["tree"] = kw.get("tree") or rng.choice(R.EXC_LEAVES)
    if srv == "od_raise":
        c["tree2"] = kw.get("tree2") or rng.choice(R.EXC_LEAVES)
    if kw.get("tls"):
        c["tls"] = True
    if kw.get("proto", rng.choice(["copy", "copy", "buffered"])) == "buffered":
        c["proto"] = "buffered"
    if kw.get("eager", rng.random() < EAGER_SHARE):
        c["eager"] = True
    return c if AB.valid(c) else None


def abort_smoke(rng: random.Random) -> Iterator[dict]:
    for args, kw in (
        (("rst", "at_connect", "echo"), {"k": 1}),
        (("rst", "after_oc", "raise"), {"k": 1, "tail": 0, "tree": "ValueError"}),
        (("rst", "held", "close"), {"k": 2, "tail": 0}),
        (("fin", "mid", "echo"), {"k": 2}),
        (("close_unread", "held", "od_raise"), {"k": 1, "tail": 0, "tree": "OSError", "tree2": "RuntimeError"}),
        (("halfclose", "after_oc", "echo"), {"k": 3}),
        (("rst", "at_connect", "return_pre"), {"k": 0, "eager": True}),
    ):
        c = abort_case(*args, rng, **{"proto": "copy", "eager": False, **kw})
        assert c is not None
        yield c


def abort_matrix(rng: random.Random, thorough: bool) -> Iterator[dict]:
    # every way the peer goes away x every position x every server-side tear-down, plain TCP
    for peer in AB.PEERS:
        for when in AB.WHENS:
            for srv in AB.SRVS:
                for _ in range(2 if thorough else 1):
                    c = abort_case(peer, when, srv, rng)
                    if c is not None:
                        yield c
    # the bare termination (nothing written) where the client task runs before the loop's read callback: eager tasks, held handler
    for peer in ("rst", "fin"):
        for srv in AB.START_SRVS + ("echo", "timeout"):
            c = abort_case(peer, "at_connect", srv, rng, k=0, eager=True)
            if c is not None:
                yield c
        for srv in AB.TRIGGER_SRVS + ("echo",):
            c = abort_case(peer, "held", srv, rng, k=0, tail=0)
            if c is not None:
                yield c
    # TLS (the peer is an asyncio stream client: rst / fin without close_notify)
    for peer in ("rst", "fin"):
        for when in AB.WHENS:
            for srv in (AB.SRVS if thorough else rng.sample(AB.SRVS, 3)):
                c = abort_case(peer, when if srv not in AB.START_SRVS else "at_connect", srv, rng, tls=True)
                if c is not None:
                    yield c
    # every exception class / groups at the raising tear-downs
    leaves = list(R.EXC_LEAVES)
    rng.shuffle(leaves)
    trees = leaves + group_trees(rng, R.EXC_LEAVES)[:3]
    for i, t in enumerate(trees):
        srv = AB.TREE_SRVS[i % len(AB.TREE_SRVS)]
        when = "at_connect" if srv in AB.START_SRVS else rng.choice(AB.WHENS)
        c = abort_case(rng.choice(["rst", "rst", "close_unread", "fin"]) if when != "at_connect" else rng.choice(["rst", "fin"]), when, srv, rng, tree=t)
        if c is not None:
            yield c
    for _ in range(40 if thorough else 12):
        c = abort_case(rng.choice(AB.PEERS), rng.choice(AB.WHENS), rng.choice(AB.SRVS), rng, tls=rng.random() < 0.2, eager=rng.random() < 0.5)
        if c is not None:
            yield c


def unit_cases(rng: random.Random, n: int) -> Iterator[dict]:
    pool_all = R.EXC_LEAVES + R.BASE_LEAVES
    for i in range(n):
        r = rng.random()
        pool = R.EXC_LEAVES if r < 0.6 else pool_all
        t = rand_tree(rng, rng.randint(0, 4), pool)
        which = i % 6
        if which == 0:
            if isinstance(t, str):
                t = ["g", t]
            yield {"kind": "unit", "op": "split", "cls": rng.choice(SPLIT_CLASSES), "tree": t}
        elif which == 1:
            yield {"kind": "unit", "op": "cls", "tree": t}
        elif which in (2, 3):
            yield {"kind": "unit", "op": "filter", "filter": "tcp.suppress_and_log", "tree": t}
        elif which == 4:
            yield {"kind": "unit", "op": "filter", "filter": "udp.client_context_aexit", "tree": t}
        else:
            yield {"kind": "unit", "op": "filter", "filter": "tls.handler_wrapper",
                   "tree": t if R.is_exception_tree(t) else rand_tree(rng, 2, R.EXC_LEAVES)}


def generate(rng: random.Random, tier: str, boost: int) -> Iterator[dict]:
    thorough = tier == "thorough"
    # a small diverse block first (so that the first failing inputs reported are whole-server ones)
    for kind in ("tcp", "udp", "tcp-tls"):
        for pos in positions(kind):
            yield server_case(kind, pos, rng.choice(["ValueError", "UserError", "Exception", "RuntimeError"]), rng, sched="mid")
    # … and malformed input from the faulty client itself
    yield bad_case("tcp", "h_thrown", "glued", "reraise", rng, v=1, oc="coro", proto="copy", sched="mid", ytimeout=False,
                   oc_busy=False, halfclose=False)
    yield bad_case("tcp-tls", "h_thrown", "glued2", "catch", rng, v=2, proto="buffered", sched="mid")
    yield bad_case("tcp", "oc_thrown", "bad_first", "propagate", rng, proto="buffered", sched="nohold")
    yield bad_case("udp", "h_thrown", "burst", "reraise", rng, v=1, sched="mid")
    # … and the same servers on an eager-task loop: UDP datagrams of F queued behind the one whose handling fails (the
    # task-done hook re-spawns the client coroutine: its first step runs inside start_soon()), every UDP position, TCP / TLS
    yield from eager_block(rng)
    # … and the responsiveness of the loop while one client's task ends with unacknowledged data in its send queue
    srng = core.sub_rng(core.seed_from_env(), ID, tier, "stall", boost)       # (the stream of the older generators is unchanged)
    yield from stall_smoke(srng)
    # … and peers that go away abruptly with data still unread, at every position of the server-side tear-down (x8 per server life)
    arng = core.sub_rng(core.seed_from_env(), ID, tier, "abort", boost)
    yield from abort_smoke(arng)
    # every leaf class alone through every unit filter (exhaustive over the alphabet)
    for leaf in R.EXC_LEAVES + R.BASE_LEAVES:
        for flt in UNIT_FILTERS:
            if flt == "tls.handler_wrapper" and leaf in R.BASE_LEAVES:
                continue
            yield {"kind": "unit", "op": "filter", "filter": flt, "tree": leaf}
            yield {"kind": "unit", "op": "filter", "filter": flt, "tree": ["g", leaf]}
    yield from unit_cases(rng, (12000 if thorough else 1500) * boost)
    rounds = (6 if thorough else 1) * boost
    for rnd in range(rounds):
        yield from stall_matrix(srng, thorough)
        yield from abort_matrix(arng, thorough)
        yield from bad_matrix(rng)
        for kind in ("tcp", "udp", "tcp-tls"):
            # the full class x position matrix
            for pos in positions(kind):
                leaves = list(R.EXC_LEAVES)
                rng.shuffle(leaves)
                for leaf in leaves:
                    yield server_case(kind, pos, leaf, rng)
                for t in group_trees(rng, R.EXC_LEAVES):
                    yield server_case(kind, pos, t, rng)
                if pos in ("h_thrown", "oc_thrown"):
                    yield server_case(kind, pos, "@thrown", rng)
                if pos == "h_post" and kind != "udp":
                    yield server_case(kind, pos, "@closed_send", rng, k=1)
                if thorough:
                    for _ in range(4):
                        yield server_case(kind, pos, rand_tree(rng, 4, R.EXC_LEAVES), rng)
                    for sched in ("mid", "late", "nohold"):
                        yield server_case(kind, pos, rng.choice(R.EXC_LEAVES), rng, sched=sched)
            # real set-up faults
            for pos in REAL_SETUP.get(kind, []):
                for sched in (("mid", "late", "nohold") if thorough else ("mid", "nohold")):
                    c = {"kind": kind, "oc": rng.choice(["coro", "gen"]), "sched": sched, "fault": {"pos": pos, "tree": None}}
                    _draw_eager(c, rng, {})
                    yield c
            # the boundary: non-Exception leaves (no promise; correspondence with the model only)
            bpos = positions(kind) if thorough else [p for p in positions(kind) if p in ("h_post", "od", "setup", "tls_hs", "oc_coro")]
            if kind == "tcp-tls" and not thorough:
                bpos = ["tls_hs", "h_post"]
            for pos in bpos:
                leaf = rng.choice(R.BASE_INJECTED)
                yield server_case(kind, pos, leaf, rng)
                yield server_case(kind, pos, ["g", rng.choice(R.EXC_LEAVES), "UserBase"], rng)
            if kind != "tcp-tls" or thorough:
                for leaf in R.BASE_INJECTED:
                    yield server_case(kind, "h_post", leaf, rng)


def extra_coverage(stats: core.Stats) -> dict:
    from translate import iso_tables
    return {"translator_error": iso_tables.last_error,
            "alphabet": {"exception_leaves": R.EXC_LEAVES, "non_exception_leaves": R.BASE_LEAVES, "injected_non_exception": R.BASE_INJECTED},
            "positions": {k: positions(k) for k in ("tcp", "tcp-tls", "udp")},
            "baselines_run": sorted(_baseline),
            "cases_rerun_because_of_a_foreign_connection": list(R.FOREIGN_RERUNS)}
