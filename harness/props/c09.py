"""
C09 — TLS truncation is never reported as a clean end-of-stream.

case kinds
  cut         {"kind":"cut","tr":"async"|"sync","role":"client"|"server","tls":"1.2"|"1.3","recs":[sizes],"notify":bool,
               "cut":offset|null,"sc":bool,"method":"recv"|"recv_into","bufsize":n,"frag":seed,"proxy":bool,"ignore_eof":bool}
              a live TLS session between the real transport (the reader, in `role`) and an independent stdlib peer that performs the
              handshake, sends one record per entry of `recs`, then close_notify; the reader's inbound ciphertext is cut after
              `cut` bytes (then EOF).   tr=async: AsyncTLSStreamTransport.wrap over an in-memory transport (vlib/c09_run);
              tr=sync: SSLStreamTransport over a socketpair with a feeder thread (vlib/c09_sync).
  close       same session, no cut, the observed operation is aclose()/close(); "peer": responsive | silent | closed | dropped.
              By default everything the peer sent is read first (quiet connection).  With "reads": n only n receive calls (of
              "bufsize" bytes, "method") are made before the close: application data received from the peer is still UNREAD at
              close time — "burst": every read of the wrapped transport returns all that is available (the peer's k records arrive
              in one transport read), "chunks": [sizes of the transport reads after the peer's handshake flight] (a complete record
              in the incoming BIO but not read / only a part of the next one), small "bufsize" (part of a decrypted record left
              inside the SSL object), or the PRNG fragmentation.
  script      scripted SSL engine + scripted wrapped transport (async), lines in the model's own syntax
  syncscript  scripted SSL socket for the blocking transport (`wrap_socket` of a harness context)
  client      the default context a client constructor builds (ssl=True) with ssl_standard_compatible omitted (null) / True /
              False, and a truncated session through it (no close_notify at all, the server's stream cut before / inside its
              close_notify): option bit AND behaviour
  closerace   a live TLS session (asynchronous transport) where one task waits in recv()/recv_into(), ANOTHER task calls aclose(),
              and then the peer's stream is cut (at once / inside a record in flight / at an offset of the peer's close_notify
              answer / not at all) — case format and lines in vlib/c09_race.  No model run (oracle only).
  closesend   a live TLS session where one task's send_all() is PARKED inside the wrapped transport (backpressure) and owns the
              transport's send lock, possibly a second sender queued behind it, when another task calls aclose(); the peer waits
              for our close_notify — vlib/c09_race.run_sendrace.  No model run (oracle only).

  listen      server side THROUGH THE LISTENER: the real AsyncTLSListener over an in-memory listener; the client's stream is cut
              at every offset of its handshake flights (and after), or the handshake stalls / is corrupted / the server shuts
              down meanwhile; the handler given to serve() is the reader — vlib/c09_listen.  No model run (oracle only).

  endpoint    the layers ABOVE the transports — AsyncStreamEndpoint / AsyncStreamReceiverEndpoint / AsyncTCPNetworkClient and the
              blocking StreamEndpoint / StreamReceiverEndpoint / TCPNetworkClient (ssl=<context> or ssl=True), StreamProtocol
              (recv path) and BufferedStreamProtocol (recv_into path) — over the real TLS transports with the peer's stream cut
              at an offset, the reader READING AGAIN 2..4 times after its first terminal result: recv_packet() again, a second
              task / thread taking over, two readers at once, iter_received_packets() restarted; every report is compared with
              the clean end-of-stream report of a control session (close_notify delivered) — vlib/c09_endpoint.  No model run
              (oracle only).

real lines (cut)   hs ok|exc:<Class> ; r data <n> | r eof | r exc:<Class> | r late-data <n> (first terminal result, then two more calls) ;
                   plain <hex> ; close … ; inner-closed <0|1> ; peer … ; marks …
model              the recorded answers of the SSL object / wrapped transport (async, proxy) or the script are replayed to
                   EasyNet/Model/TlsEof.lean (endriver `tlseof`): every call the transport made and every result must agree.
oracle             from the real lines and the independent reference session only (vlib/c09_env.baseline): see `oracle`.
"""
from __future__ import annotations

import multiprocessing
import os
from typing import Any

from vlib import core
from vlib import c09_env as e9
from vlib import c09_translate as tr9

ID = "C09"
CLAIMED = True
TITLE = "TLS truncation is never reported as a clean end-of-stream"
REQUIRED_THEOREMS = ["C09_truncation_is_error", "C09_compat_off_is_eof", "C09_clean_only_after_notify", "C09_close_sends_notify",
                     "C09_sync_mapping", "C09_client_default_context", "C09_recv_mapping_exact", "C09_tables_wellformed",
                     "C09_close_notify_lost_without_flush_clause"]
LEVEL_TEXT = (
    "Machine-checked proof (Lean 4) over tables regenerated from the Python AST on every run: in the statement-level model of "
    "AsyncTLSStreamTransport (_retry_ssl_method, recv, recv_into, wrap, aclose), SSLStreamTransport (suppress_ragged_eofs, "
    "recv mapping, close), is_ssl_eof_error and the default client contexts, for EVERY script of SSL-object / wrapped-transport "
    "answers obeying the stated OpenSSL laws and every number of delivered bytes short of the end of the peer's close_notify, "
    "no receive call ever reports end-of-stream in standard-compatible mode (and every later call keeps failing), the same "
    "situation is end-of-stream with the mode off, a clean end-of-stream implies a complete close_notify, aclose hands the "
    "unwrap output to the wrapped transport before closing it — whether unwrap returned, wanted I/O or FAILED with an SSL error "
    "after writing the alert (unread application data) — and closes it on every exit path; plus real TLS sessions cut "
    "at every byte offset (async in-memory, blocking socketpair) with the recorded OpenSSL answers replayed to the model, "
    "scripted engines over the whole exception alphabet, close paths with an independent peer, and a direct oracle."
)
LEVEL_NOTE = (
    "Trusted: Lean kernel; axioms propext, Quot.sound, Classical.choice only; the AST translator (cross-checked by scripted "
    "engines); OpenSSL/CPython ssl behaviour enters only through TlsEofLaws (LawClean, Ragged, UnwrapLaw), validated on every "
    "recorded trace, and requires a context with OP_IGNORE_UNEXPECTED_EOF cleared (what the default client contexts do); "
    "cryptography and the record layer are outside the model; lock waits inside the retry loop are not injection points here (C14)."
)
TECHNIQUE = ("Lean 4 theorems over AST-generated tables (all answer scripts, all cut positions, both modes) + every-offset "
             "truncation of real TLS sessions with trace replay to the model + scripted-engine enumeration + oracle")
TRUSTED_BASE = [
    "Lean 4.33.0 kernel; axioms allowed: propext, Classical.choice, Quot.sound",
    "hand-written model EasyNet/Model/TlsEof.lean tied to tls.py / socket.py / _utils.py by (a) tables regenerated from the AST "
    "(harness/vlib/c09_translate.py) and (b) replay of recorded / scripted answer sequences (sampled, not proved)",
    "OpenSSL 3.0 / CPython 3.12 ssl: only through TlsEofLaws, checked on every recorded trace; ssl.SSLSocket.read's "
    "suppress_ragged_eofs handling is modelled (stdlibRead)",
    "harness: in-memory transport with a cut, lock-step stdlib peer, socketpair feeder thread, virtual-time loop",
]
ASSUMPTIONS = [
    "the SSL context has OP_IGNORE_UNEXPECTED_EOF cleared (Python >= 3.10 sets it on new contexts; with it OpenSSL itself reports "
    "a truncation as a clean shutdown and no wrapper can tell) — the default client contexts clear it (C09_client_default_context)",
    "TlsEofLaws: a clean answer (read returns b'' / SSLZeroReturnError) only after the complete close_notify was fed; after "
    "read_bio.write_eof() without it, read returns buffered plaintext or raises the EOF error; the first unwrap() emits the alert",
    "the wrapped transport raises only non-SSL exceptions and keeps reporting EOF once it has",
]
RULE = (
    "cut cases: every byte offset of the peer->reader ciphertext stream of the chosen sessions (quick: 2 sessions async, "
    "structured sample for the blocking transport; thorough: all role x version shapes) x standard_compatible x recv/recv_into; "
    "non-trivial = the cut fell before the end of the stream, the key is the offset class (handshake / data / close_notify x "
    "between / inside records) x mode x transport; scripted cases: every class of the generated alphabet x pattern x mode x method; "
    "close race cases (one task waiting in recv/recv_into, another calling aclose(), then the cut; oracle only, no model run): "
    "every offset of the peer's close_notify answer x recv/recv_into x role x TLS version, plus cuts at once / inside records in "
    "flight / none, reader parked or calling late, both modes, silent peer; the key is order x end-of-stream class x mode; "
    "close cases: quiet connection x 4 peer behaviours, and UNREAD application data at close time (the peer's k records in one "
    "transport read with 0..k-1 of them read, a complete record in the incoming BIO + part of the next, part of a decrypted record "
    "left inside the SSL object, PRNG fragmentation) x role x TLS version x mode x peer responsive / dropped / closed, async and "
    "blocking; aclose() while another task's send_all() is parked in the wrapped transport (1 or 2 senders, the backpressure ends "
    "after 0..6 loop turns or never); scripted engines whose unwrap() writes the alert and then raises each SSL error class; "
    "listener cases (server side through the real AsyncTLSListener over an in-memory listener, oracle only): every offset of "
    "the client's handshake flights (quick: of one TLS version, a structured third of the other), structured offsets after "
    "the handshake, stalled / corrupted handshakes, server shut down during the handshake, 2-4 connections on one listener; "
    "endpoint / client layer cases (oracle only): AsyncStreamEndpoint, AsyncStreamReceiverEndpoint, AsyncTCPNetworkClient "
    "(in-memory transport, virtual time) and StreamEndpoint, StreamReceiverEndpoint, TCPNetworkClient (socketpair / loopback, "
    "feeder thread) x StreamProtocol (recv) / BufferedStreamProtocol (recv_into) x line / fixed-size packets (records carrying "
    "0..k complete packets + an incomplete one) x max_recv_size 1..65536: every offset after the handshake of one session per "
    "layer x path (asynchronous side), structured offsets (record boundaries +-, every close_notify offset, no close_notify at "
    "all) of the others, x standard_compatible True / omitted / False x the library-built context (ssl=True), the reader reading "
    "again 2-4 times after the first terminal result (recv_packet again / a second task or thread / two readers at once / "
    "iter_received_packets restarted); the key is layer x path x offset class x partial-packet-buffered x mode x read pattern"
)

_aux: dict[str, Any] = {}
_cache: dict[str, tuple[list[str], dict]] = {}
_stats: dict[str, Any] = {"laws": [], "trace_problems": [], "ignore_eof": {}, "classes": {}, "lens_mismatch": 0, "outside_alphabet": 0,
                          "race": {}, "race_first": {}, "unread": {}, "sendrace": {}, "listen": {}, "endpoint": {},
                          "endpoint_clean": {}, "endpoint_trunc": {}}


def translate() -> None:
    tr9.translate()


# ------------------------------------------------------------------------------------------------------------------------
# running
# ------------------------------------------------------------------------------------------------------------------------

def _run_once(case: dict) -> tuple[list[str], dict]:
    k = case["kind"]
    if k in ("cut", "close"):
        if case.get("tr", "async") == "sync":
            from vlib import c09_sync as s9
            return s9.run_cut(case) if k == "cut" else s9.run_close(case)
        from vlib import c09_run as r9
        return r9.run_session(case)
    if k == "script":
        from vlib import c09_run as r9
        return r9.run_script(case)
    if k == "syncscript":
        from vlib import c09_run as r9
        return r9.run_syncscript(case)
    if k == "client":
        from vlib import c09_client as c9
        return c9.run_client(case)
    if k == "closerace":
        from vlib import c09_race as x9
        return x9.run_race(case)
    if k == "closesend":
        from vlib import c09_race as x9
        return x9.run_sendrace(case)
    if k == "listen":
        from vlib import c09_listen as l9
        return l9.run_listen(case)
    if k == "endpoint":
        from vlib import c09_endpoint as p9
        return p9.run_endpoint(case)
    raise core.InfraError(f"unknown case kind {k}")


def _run(case: dict) -> tuple[list[str], dict]:
    """a harness time limit is never a verdict: retry, then infrastructure error"""
    last: list[str] = []
    for _ in range(3):
        lines, aux = _run_once(case)
        if not any(ln.startswith("infra-timeout") for ln in lines):
            return lines, aux
        last = lines
    return last, {}


def _worker(case: dict):
    try:
        lines, aux = _run(case)
    except core.InfraError as e:
        return core.case_digest(case), ["infra-error " + str(e)], {}
    except Exception as e:  # noqa: BLE001
        return core.case_digest(case), [f"harness-exc {type(e).__name__}: {e}"], {}
    return core.case_digest(case), lines, aux


def run_real(case: dict) -> list[str]:
    d = core.case_digest(case)
    hit = _cache.pop(d, None)
    if hit is None:
        lines, aux = _run(case)
    else:
        lines, aux = hit
    if any(ln.startswith(("infra-timeout", "infra-error")) for ln in lines):
        raise core.InfraError("C09: harness time limit hit repeatedly: " + "; ".join(ln for ln in lines if ln.startswith("infra")))
    _aux[d] = aux
    if aux.get("laws"):
        _stats["laws"].extend(aux["laws"][:3])
    if aux.get("trace_problems"):
        _stats["trace_problems"].extend(aux["trace_problems"][:3])
    return lines


def after_batch() -> None:
    _aux.clear()


def _procs() -> int:
    try:
        return max(1, int(os.environ.get("VERIF_C09_PROCS", "4")))
    except ValueError:
        return 4


def prefetch(cases: list[dict]) -> None:
    n = _procs()
    if n <= 1 or len(cases) < 40:
        return
    ctx = multiprocessing.get_context("fork")
    with ctx.Pool(n) as pool:
        for d, lines, aux in pool.imap_unordered(_worker, cases, chunksize=16):
            _cache[d] = (lines, aux)


# ------------------------------------------------------------------------------------------------------------------------
# oracle
# ------------------------------------------------------------------------------------------------------------------------

def _field(real: list[str], key: str) -> str | None:
    return next((ln[len(key) + 1:] for ln in real if ln.startswith(key + " ")), None)


def _terminal(real: list[str]) -> tuple[list[str], list[str]]:
    """(data results, terminal results) of the receive loop"""
    rs = [ln[2:] for ln in real if ln.startswith("r ")]
    data = [r for r in rs if r.startswith("data ")]
    term = [r for r in rs if not r.startswith("data ")]
    return data, term


def oracle(case: dict, real: list[str]) -> str | None:
    for ln in real:
        if ln.startswith(("harness-exc", "main-exc")):
            return f"unexpected failure: {ln}"
        if ln.startswith("hang"):
            return f"the reader never returns: {ln}"
    k = case["kind"]
    if k == "cut":
        return _oracle_cut(case, real)
    if k == "close":
        return _oracle_close(case, real)
    if k == "script":
        return _oracle_script(case, real)
    if k == "syncscript":
        return _oracle_syncscript(case, real)
    if k == "client":
        from vlib import c09_client as c9
        return c9.oracle(case, real)
    if k == "closerace":
        return _oracle_race(case, real)
    if k == "closesend":
        return _oracle_sendrace(case, real)
    if k == "listen":
        return _oracle_listen(case, real)
    if k == "endpoint":
        from vlib import c09_endpoint as p9
        return p9.oracle(case, real)
    return None


def _listen_sub(case: dict, real: list[str], i: int) -> tuple[dict, list[str]]:
    """connection i of a `listen` case as a `cut` case (reader = server, asynchronous transport) + its lines without the prefix"""
    c = case["conns"][i]
    p = f"c{i} "
    sub = [ln[len(p):] for ln in real if ln.startswith(p)]
    sc = {"kind": "cut", "tr": "async", "role": "server", "tls": case["tls"], "recs": list(c.get("recs") or []),
          "notify": bool(c.get("notify", True)), "cut": c.get("cut") if not c.get("fault") else None,
          "sc": bool(case.get("sc", True)), "method": c.get("method", "recv")}
    return sc, sub


def _listen_class(case: dict, i: int) -> str:
    c = case["conns"][i]
    m = e9.baseline("server", case["tls"], list(c.get("recs") or []), bool(c.get("notify", True)))
    if c.get("fault"):
        return f"handshake/{c['fault']}"
    return e9.classify(m, c.get("cut"))


def _oracle_listen(case: dict, real: list[str]) -> str | None:
    """Server side through AsyncTLSListener.  Per connection:
      the client's stream ended (or the handshake failed otherwise) INSIDE THE HANDSHAKE: the failure is reported (handshake
        error handler / log; nothing is demanded when the server itself was shut down meanwhile), NO connection handler is ever
        started for that connection - hence no reader, and nothing is told "end-of-stream" -, the accepted transport is closed;
      the handshake flight was delivered completely: the handler is started once, with the TLS transport, and its receive calls
        obey the clauses of the `cut` cases (plaintext = complete records before the cut; no complete close_notify and
        standard-compatible => three errors, never a clean end-of-stream; mode off => end-of-stream; complete => end-of-stream)."""
    sc = bool(case.get("sc", True))
    for i, c in enumerate(case["conns"]):
        sub_case, sub = _listen_sub(case, real, i)
        recs = sub_case["recs"]
        m = e9.baseline("server", case["tls"], recs, sub_case["notify"])
        cut, fault = c.get("cut"), c.get("fault")
        cls = _listen_class(case, i)
        where = (f"listener (server) TLS{case['tls']} connection {i} of {len(case['conns'])}: client stream "
                 + (f"{fault} at offset {cut}" if fault else f"cut={cut}") + f" ({cls}) sc={sc} {c.get('method', 'recv')}")
        hs = _field(sub, "hs")
        if hs is None:
            return f"{where}: no outcome observed"
        handler = (_field(sub, "handler") or "0 -").split()
        n_started, types = int(handler[0]), handler[1]
        in_hs = bool(fault) or (cut is not None and cut < m["hs_end"])
        if in_hs:
            rs = [ln[2:] for ln in sub if ln.startswith("r ")]
            if n_started or rs:
                told = [r for r in rs if r == "eof"]
                return (f"{where}: the TLS handshake failed ({hs}) but a connection handler was started ({n_started}x, with "
                        f"{types})" + (f" and its reader is told a clean end-of-stream (results: {rs})" if told else
                                       f" (reader results: {rs})"))
            if hs == "ok":
                return f"{where}: the stream ended inside the handshake but the handshake succeeded"
            if fault != "cancel" and not hs.startswith("exc:"):
                return f"{where}: the handshake failed but the failure was reported nowhere (no handshake error handler call, no log)"
            if _field(sub, "inner-closed") != "1":
                return f"{where}: handshake failed ({hs}) but the accepted transport was left open"
            continue
        if hs != "ok":
            return f"{where}: the client's handshake flight was delivered completely but no handler was started with a TLS transport ({hs})"
        if n_started != 1 or types != "AsyncTLSStreamTransport":
            return f"{where}: the connection handler was started {n_started}x with {types} (expected once, with the TLS transport)"
        why = _oracle_cut(sub_case, sub)
        if why:
            return "listener: " + why
        if _field(sub, "inner-closed") != "1":
            return f"{where}: the accepted transport is still open after the handler closed its stream"
    return None


def _race_marks(real: list[str]) -> dict[str, str]:
    ln = _field(real, "marks") or ""
    return dict(tok.split("=", 1) for tok in ln.split() if "=" in tok)


def _race_class(case: dict, real: list[str]) -> str:
    """where the peer's stream ended: how much of its close_notify was delivered (harness-side offsets), and, when none of it
    was, whether the end fell inside a record"""
    mk = _race_marks(real)
    cn = mk.get("cn", "none")
    if cn != "none":
        return "cn-" + cn
    if case.get("release") == "never":
        return "no-cut(silent peer)"
    try:
        d = int(mk.get("delivered", "0"))
        ends = {int(mk["hs_end"])} | {int(x) for x in mk.get("rec_ends", "-").split(",") if x != "-"}
    except (KeyError, ValueError):
        return "cn-none"
    return "cn-none/" + ("between" if d in ends else "inside")


def _oracle_race(case: dict, real: list[str]) -> str | None:
    """Judged from what the property states only.  Let `complete` = every byte of the peer's close_notify record was delivered
    by the wrapped transport before its EOF (harness-side count).
      standard-compatible, not complete : no receive call may report end-of-stream — neither the one that was waiting when
                                          aclose() began nor any later one (every terminal result is an exception; a call
                                          aborted because aclose() closed the wrapped transport under it raises OSError:
                                          an error all the same);
      standard-compatible, complete     : never the truncation error (the stream was NOT truncated); a call may still have been
                                          aborted by the local close (non-TLS OSError), but the call made after aclose()
                                          returned reports end-of-stream — judged only when no record was in flight when
                                          aclose() began (else the closing handshake may meet application data, OpenSSL fails
                                          the session and every call raises: an error is never excluded by the property);
      mode off                          : an abrupt end is an end-of-stream: never the truncation error;
      data                              : whatever was delivered is a prefix of the plaintext of the complete records before
                                          the end of the stream (records in flight when aclose() began may be discarded);
      close                             : aclose() returns, the wrapped transport is closed, and in standard-compatible mode
                                          the bytes handed over end with the alert record and an independent peer reads a
                                          close_notify from them."""
    sc = bool(case.get("sc", True))
    recs = list(case["recs"])
    cls = _race_class(case, real)
    where = (f"close race {case['role']} TLS{case['tls']} {case.get('order', 'parked')} {case.get('method', 'recv')} sc={sc} "
             f"end of the peer's stream: {cls}")
    if _field(real, "hs") != "ok":
        return f"{where}: handshake failed ({_field(real, 'hs')})"
    mk = _race_marks(real)
    m = e9.baseline(case["role"], case["tls"], recs, False)
    try:
        delivered = int(mk["delivered"])
        if int(mk["hs_end"]) != m["hs_end"] or [int(x) for x in mk["rec_ends"].split(",") if x != "-"] != m["rec_ends"]:
            return f"unexpected failure: the session's record offsets differ from the reference session ({mk} vs {m['rec_ends']})"
    except (KeyError, ValueError):
        return f"unexpected failure: no marks line ({_field(real, 'marks')})"
    plain = _field(real, "plain")
    if plain is None:
        return f"{where}: no plaintext line"
    exp = e9.expected_plain(m, recs, delivered).hex()
    if not exp.startswith("" if plain == "-" else plain):
        return f"{where}: delivered plaintext is not a prefix of the complete records before the end of the stream"
    _, term = _terminal([ln for ln in real if not ln.startswith("r closer-not-done")])
    if len(term) < 3:
        return f"{where}: fewer than three terminal results observed: {term}"
    if any(t.startswith("late-data") for t in term):
        return f"{where}: data delivered after an end-of-stream / error result: {term}"
    ragged = [i for i, t in enumerate(term) if t.startswith("exc:SSLEOFError") or t.endswith("/ragged")]
    complete = mk.get("cn") == "complete"
    if sc and not complete:
        bad = [i for i, t in enumerate(term) if not t.startswith("exc:")]
        if bad:
            return (f"{where}: the peer's stream ended without a complete close_notify while aclose() was in progress, "
                    f"standard_compatible=True, but receive call #{bad[0] + 1} reports {term[bad[0]]!r} (results: {term})")
    elif sc:
        # records still in flight when aclose() began: whether the reader's read() or the closing handshake's unwrap() meets
        # them is a race inside the transport; OpenSSL fails the session when unwrap() does ("application data after
        # close notify") and every later call raises — an error is never excluded by the property, so nothing is demanded.
        # Quiet connection (everything the peer had sent was read before aclose() began): the stream was NOT truncated.
        in_flight = int(mk.get("gate", "0")) < (m["rec_ends"][-1] if m["rec_ends"] else m["hs_end"])
        if not in_flight:
            if ragged:
                return (f"{where}: the peer's close_notify was delivered completely but receive call #{ragged[0] + 1} "
                        f"reports a truncation ({term})")
            if term[2] != "eof":
                return f"{where}: complete close_notify, aclose() returned, but the next receive call reports {term[2]!r} ({term})"
            bad = [t for t in term if t != "eof" and t.startswith("exc:SSL")]
            if bad:
                return f"{where}: complete close_notify but a receive call fails with a TLS error ({term})"
    else:
        if ragged:
            return f"{where}: standard_compatible=False: an abrupt end must be an end-of-stream, got {term}"
    # the close itself
    c = next((ln for ln in real if ln.startswith("close ") and not ln.startswith(("close-", "closing"))), None)
    if c is None:
        return f"{where}: aclose() never returned"
    if c != "close ok":
        return f"{where}: {c}"
    if _field(real, "inner-closed") != "1":
        return f"{where}: the wrapped transport is not closed after aclose()"
    if _field(real, "second") != "ok":
        return f"{where}: second aclose(): {_field(real, 'second')}"
    if sc:
        em = _field(real, "close-emitted") or "-"
        if em == "-":
            return f"{where}: nothing was handed to the wrapped transport on close (no close_notify alert)"
        if "ragged-tail" in em:
            return f"{where}: the bytes emitted on close do not end at a record boundary ({em})"
        ty, ln = em.split()[-1].split(":")
        if case["tls"] == "1.2" and ty != "21":
            return f"{where}: the last record emitted on close is not an alert record (content type {ty})"
        if case["tls"] == "1.3" and not (ty == "23" and int(ln) <= 5 + 2 + 1 + 16 + 8):
            return f"{where}: the last record emitted on close is not a TLS 1.3 alert-sized record ({em})"
        if "close_notify" not in (_field(real, "peer") or "").split(","):
            return f"{where}: the independent peer did not get a clean close_notify (peer saw {_field(real, 'peer')})"
    return None


def _oracle_sendrace(case: dict, real: list[str]) -> str | None:
    """aclose() while another task's send_all() is parked in the wrapped transport under backpressure; the peer waits for our
    close_notify.  From the property ("closing the transport sends one", standard-compatible mode): once the backpressure
    ends (release=after) the bytes handed to the wrapped transport after aclose() began end with the alert record and the
    independent peer reads a clean close_notify; aclose() returns, the wrapped transport is closed, a second aclose() returns.
    Backpressure that never ends (release=never): nothing can be sent — only: aclose() returns (shutdown timeout) and the wrapped
    transport is closed.  standard_compatible=False: nothing has to be emitted."""
    sc = bool(case.get("sc", True))
    rel = case.get("release", "after")
    where = (f"aclose() while send_all() is parked in the wrapped transport ({case['role']} TLS{case['tls']} senders={case.get('senders', 1)} "
             f"size={case.get('size', 1)} backpressure ends: {rel}, {case.get('delay', 2)} turns) sc={sc}")
    if _field(real, "hs") != "ok":
        return f"{where}: handshake failed ({_field(real, 'hs')})"
    if _field(real, "send-parked") != "1":
        return f"unexpected failure: {where}: the sender did not park in the wrapped transport"
    c = next((ln for ln in real if ln.startswith("close ") and not ln.startswith(("close-", "closing"))), None)
    if c is None:
        return f"{where}: aclose() never returned"
    if c != "close ok":
        return f"{where}: {c}"
    if _field(real, "inner-closed") != "1":
        return f"{where}: the wrapped transport is not closed after aclose()"
    if _field(real, "second") != "ok":
        return f"{where}: second aclose(): {_field(real, 'second')}"
    if not sc or rel != "after":
        return None
    em = _field(real, "close-emitted") or "-"
    if em == "-":
        return (f"{where}: nothing was handed to the wrapped transport after aclose() began (no close_notify alert; "
                f"aclose() waited: {_field(real, 'close-waited')}; peer saw {_field(real, 'peer')})")
    if "ragged-tail" in em:
        return f"{where}: the bytes emitted on close do not end at a record boundary ({em})"
    ty, ln = em.split()[-1].split(":")
    if case["tls"] == "1.2" and ty != "21":
        return f"{where}: the last record emitted on close is not an alert record (content type {ty})"
    if case["tls"] == "1.3" and not (ty == "23" and int(ln) <= 5 + 2 + 1 + 16 + 8):
        return f"{where}: the last record emitted on close is not a TLS 1.3 alert-sized record ({em})"
    if "close_notify" not in (_field(real, "peer") or "").split(","):
        return f"{where}: the independent peer did not get a clean close_notify (peer saw {_field(real, 'peer')})"
    return None


def _oracle_cut(case: dict, real: list[str]) -> str | None:
    notify = bool(case.get("notify", True))
    m = e9.baseline(case["role"], case["tls"], list(case["recs"]), notify)
    cut = case.get("cut")
    sc = bool(case.get("sc", True))
    where = f"{case.get('tr', 'async')} {case['role']} TLS{case['tls']} cut={cut} ({e9.classify(m, cut)}) sc={sc} {case.get('method', 'recv')}"
    hs_complete = cut is None or cut >= m["hs_end"]
    complete = notify and (cut is None or cut >= m["cn_end"])
    hs = _field(real, "hs")
    if hs is None:
        return f"{where}: no handshake outcome observed"
    if not hs_complete:
        if hs == "ok":
            return f"{where}: the stream ended inside the handshake but wrap()/the constructor succeeded"
        if _field(real, "inner-closed") == "0":
            return f"{where}: handshake failed but the wrapped transport was left open"
        return None
    if hs != "ok":
        return f"{where}: the peer's handshake flight was delivered completely but the handshake failed ({hs})"
    if case.get("ignore_eof"):
        return None       # configuration outside the property's assumption: reported in the evidence, not judged
    plain = _field(real, "plain")
    exp = core.hexs(e9.expected_plain(m, list(case["recs"]), cut))
    if plain != exp:
        return f"{where}: delivered plaintext differs from the complete records before the cut ({len(plain or '') // 2} vs {len(exp) // 2} bytes)"
    _, term = _terminal(real)
    if len(term) < 3:
        return f"{where}: fewer than three terminal results observed: {term}"
    if any(t.startswith("late-data") for t in term):
        return f"{where}: data delivered after an end-of-stream / error result: {term}"
    if complete:
        if term[0] != "eof":
            return f"{where}: complete close_notify delivered but the reader reports {term[0]} instead of a clean end-of-stream"
        return None
    if sc:
        bad = [i for i, t in enumerate(term) if not t.startswith("exc:")]
        if bad:
            return (f"{where}: stream cut without the peer's close_notify, standard_compatible=True, but receive call "
                    f"#{bad[0] + 1} after the data reports {term[bad[0]]!r} (results: {term})")
        return None
    bad = [i for i, t in enumerate(term) if t != "eof"]
    if bad:
        return f"{where}: standard_compatible=False: an abrupt end must be an end-of-stream, got {term}"
    return None


def _delivery(case: dict) -> str:
    return ("chunks=" + ",".join(map(str, case["chunks"])) if case.get("chunks") else "burst" if case.get("burst") else "prng")


def _oracle_close(case: dict, real: list[str]) -> str | None:
    """From the property only: "closing the transport sends one [close notification]" (standard-compatible mode, wrapped
    transport not already closing) — WHATEVER is pending on the read side (data received from the peer and not read yet, in
    the incoming BIO, inside the SSL object or in flight): the bytes handed to the wrapped transport during aclose()/close()
    end with the alert record, they were handed over before the wrapped transport was closed, and an independent peer reads a
    clean close_notify from them (not a ragged EOF); the wrapped transport is closed; a second close returns.
    standard_compatible=False: nothing has to be emitted."""
    sc = bool(case.get("sc", True))
    mode = case.get("peer", "responsive")
    unread = case.get("reads") is not None
    where = f"close {case.get('tr', 'async')} {case['role']} TLS{case['tls']} peer={mode} sc={sc}"
    if unread:
        where += (f" [application data from the peer still unread at close time: records {list(case['recs'])}, {case['reads']} "
                  f"{case.get('method', 'recv')}({case.get('bufsize', 65536)}) call(s) before the close, delivery {_delivery(case)}]")
    if _field(real, "hs") != "ok":
        return f"{where}: handshake failed ({_field(real, 'hs')})"
    if unread:
        pp = _field(real, "pre-plain")
        exp = b"".join(e9.payload(i, n) for i, n in enumerate(case["recs"])).hex()
        if pp is None or not exp.startswith("" if pp == "-" else pp):
            return f"{where}: the data handed out before the close is not a prefix of what the peer sent ({pp})"
    c = next((ln for ln in real if ln.startswith("close ") and not ln.startswith(("close-", "closing"))), None)
    if c is None:
        return f"{where}: close never returned"
    if _field(real, "inner-closed") != "1":
        return f"{where}: the wrapped transport / socket is not closed after {c}"
    if _field(real, "second") not in ("ok",):
        return f"{where}: second close: {_field(real, 'second')}"
    if not sc:
        return None
    if c != "close ok":
        return f"{where}: {c}"
    em = _field(real, "close-emitted") or "-"
    if em == "-":
        return f"{where}: nothing was handed to the wrapped transport on close (no close_notify alert)"
    if "ragged-tail" in em:
        return f"{where}: the bytes emitted on close do not end at a record boundary ({em})"
    last = em.split()[-1]
    ty, ln = last.split(":")
    if case["tls"] == "1.2" and ty != "21":
        return f"{where}: the last record emitted on close is not an alert record (content type {ty})"
    if case["tls"] == "1.3" and not (ty == "23" and int(ln) <= 5 + 2 + 1 + 16 + 8):
        return f"{where}: the last record emitted on close is not a TLS 1.3 alert-sized record ({last})"
    order = _field(real, "close-order")
    if order is not None:
        o = order.split()
        if "send" not in o or "aclose" not in o or o.index("send") > o.index("aclose"):
            return f"{where}: unwrap output was not handed to the wrapped transport before closing it (order: {order})"
    got = (_field(real, "peer") or "").split(",")
    if "close_notify" not in got:
        return f"{where}: the independent peer did not get a clean close_notify from the bytes emitted on close (peer saw {got})"
    return None


def _oracle_script(case: dict, real: list[str]) -> str | None:
    """the property on scripted engines: what the LAST SSL answer of a receive call was decides what the call may report"""
    sc = bool(case.get("sc", True))
    lines = list(case["lines"])
    ops: list[tuple[str, list[str]]] = []
    for ln in lines:
        if ln.startswith("op "):
            ops.append((ln, []))
        elif ops:
            ops[-1][1].append(ln)
    # results per op from the real lines
    res: list[str] = []
    cur = None
    for ln in real:
        if ln.startswith("op "):
            cur = ln
        elif ln.startswith("res ") and cur is not None:
            res.append(ln)
            cur = None
        elif ln == "desync":
            break
    for (op, resp), r in zip(ops, res):
        name = op.split()[1]
        if name not in ("recv", "recv_into"):
            continue
        ssl_answers = [x for x in resp if x.startswith("s ")]
        if not ssl_answers:
            continue
        last = ssl_answers[-1].split()
        # only when the script was consumed to its end is the last answer the deciding one
        if resp and resp[-1] != ssl_answers[-1]:
            continue
        if last[1] == "ret":
            want = "res eof" if last[2] == "0" else f"res data {last[2]}"
            if r != want:
                return f"scripted engine: read returned {last[2]} bytes, {name} reports {r!r}"
            continue
        cls, pat = last[2], last[3] == "1"
        if cls in ("ssl.SSLWantReadError", "ssl.SSLWantWriteError"):
            continue
        # (the pattern guard of is_ssl_eof_error applies to every SSLError: OpenSSL's own "unexpected EOF" reason)
        is_eof_err = cls == "ssl.SSLEOFError" or (cls.startswith("ssl.") and pat)
        if cls == "ssl.SSLZeroReturnError":
            if r != "res eof":
                return f"scripted engine: SSLZeroReturnError (close_notify received) but {name} reports {r!r}"
        elif is_eof_err and not sc:
            if r != "res eof":
                return f"scripted engine: EOF error {cls} with standard_compatible=False must be an end-of-stream, {name} reports {r!r}"
        else:
            if not r.startswith("res exc ") and r != "res cancelled":
                return (f"scripted engine: the SSL object raised {cls} (pattern={int(pat)}), standard_compatible={sc}: "
                        f"{name} must raise, it reports {r!r}")
    if any(o[0] == "op aclose" for o in ops) and "desync" not in real and _field(real, "inner-closed") != "1":
        return "scripted engine: aclose() ended but the wrapped transport is not closed"
    why = _oracle_script_close(case, ops, real)
    if why:
        return why
    return None


def _oracle_script_close(case: dict, ops: list[tuple[str, list[str]]], real: list[str]) -> str | None:
    """"closing the transport sends one": standard-compatible mode, wrapped transport open, first aclose() after a successful
    wrap — if the first unwrap() call wrote the alert into the outgoing BIO (out > 0, alert), whether it then returned, wanted
    I/O or raised an SSL error, the real transport must hand those bytes to the wrapped transport (`call t.send <n> 1`) before
    it closes it."""
    if not case.get("sc", True) or case.get("inner_closing"):
        return None
    names = [o[0].split()[1] for o in ops]
    if "aclose" not in names:
        return None
    i = names.index("aclose")
    if names[:i].count("wrap") != 1 or names[0] != "wrap" or any(n not in ("wrap", "recv", "recv_into") for n in names[:i]):
        return None
    resp = ops[i][1]
    if not resp or not resp[0].startswith("s "):
        return None
    tok = resp[0].split()
    out, alert = (int(tok[3]), int(tok[4])) if tok[1] == "ret" else (int(tok[4]), int(tok[5]))
    if not (out > 0 and alert):
        return None
    if tok[1] == "raise" and not tok[2].startswith("ssl."):
        return None
    # the wrap must have succeeded and the calls of the aclose op are the lines between `op aclose` and its `res`
    seg: list[str] = []
    seen = -1
    for ln in real:
        if ln.startswith("op "):
            seen += 1
            continue
        if seen == 0 and ln.startswith("res ") and ln != "res ok":
            return None
        if seen == i:
            if ln.startswith("res ") or ln == "desync":
                break
            seg.append(ln)
    if seen < i:
        return None
    sends = [j for j, ln in enumerate(seg) if ln.startswith("call t.send ") and ln.endswith(" 1")]
    closes = [j for j, ln in enumerate(seg) if ln.startswith("call t.aclose")]
    if not sends or (closes and closes[0] < sends[0]):
        return (f"scripted engine: unwrap() wrote the close_notify alert ({out} bytes) into the outgoing BIO and "
                f"{'returned' if tok[1] == 'ret' else 'raised ' + tok[2]}, but aclose() closed the wrapped transport without handing "
                f"it over (calls: {seg})")
    return None


def _oracle_syncscript(case: dict, real: list[str]) -> str | None:
    sc = bool(case.get("sc", True))
    it = iter(real)
    for op in case["ops"]:
        tok = op.split()
        try:
            if tok[0] == "suppress":
                r = next(it)
                if r != f"suppress {int(not sc)}":
                    return f"blocking transport: wrap_socket got suppress_ragged_eofs={r.split()[-1]} with standard_compatible={sc}"
            elif tok[0] == "recv":
                r = next(it)
                if tok[2] == "raise":
                    cls = tok[3]
                    if cls == "ssl.SSLZeroReturnError" and r != "out eof":
                        return f"blocking transport: SSLZeroReturnError must be an end-of-stream, {tok[1]} gives {r!r}"
                    if cls == "ssl.SSLEOFError":
                        if sc and not r.startswith("out exc"):
                            return f"blocking transport: ragged EOF with standard_compatible=True must raise, {tok[1]} gives {r!r}"
                        if not sc and r != "out eof":
                            return f"blocking transport: ragged EOF with standard_compatible=False must be an end-of-stream, got {r!r}"
                    if cls in ("ssl.SSLError", "ssl.SSLCertVerificationError", "builtins.OSError", "builtins.ConnectionResetError") \
                            and not r.startswith("out exc"):
                        return f"blocking transport: {cls} must propagate, {tok[1]} gives {r!r}"
            elif tok[0] == "close":
                calls = next(it)
                next(it)
                if not calls.split()[-1:] == ["closeSocket"]:
                    return f"blocking transport: close() did not close the socket ({calls})"
                if sc and tok[1] == "1" and "unwrap" not in calls.split():
                    return f"blocking transport: close() with standard_compatible=True did not call unwrap() ({calls})"
        except StopIteration:
            return "blocking transport: fewer results than operations"
    return None


# ------------------------------------------------------------------------------------------------------------------------
# model
# ------------------------------------------------------------------------------------------------------------------------

def model_input(case: dict, real: list[str]):
    k = case["kind"]
    if k in ("cut", "close") and case.get("tr", "async") == "async":
        aux = _aux.get(core.case_digest(case)) or {}
        if not aux.get("proxy") or not aux.get("model_ops"):
            return None
        return f"tlseof async {int(bool(case.get('sc', True)))} 0", list(aux["model_ops"])
    if k == "script":
        return f"tlseof async {int(bool(case.get('sc', True)))} {int(bool(case.get('inner_closing', False)))}", list(case["lines"])
    if k == "syncscript":
        return f"tlseof sync {int(bool(case.get('sc', True)))}", list(case["ops"])
    if k == "client":
        from vlib import c09_client as c9
        return c9.model_input(case, real)
    return None


def real_for_diff(case: dict, real: list[str]) -> list[str]:
    k = case["kind"]
    if k in ("cut", "close"):
        aux = _aux.get(core.case_digest(case)) or {}
        return list(aux.get("real_trace") or [])
    if k == "script":
        return [ln for ln in real if not ln.startswith(("inner-closed", "hang", "main-exc"))]
    if k == "client":
        from vlib import c09_client as c9
        return c9.real_for_diff(case, real)
    return list(real)


def model_post(case: dict, lines: list[str]) -> list[str]:
    k = case["kind"]
    if k in ("cut", "close", "script"):
        out = []
        for ln in lines:
            if ln.startswith(("call rbio.", "call wbio.", "state ")):
                continue
            out.append(ln)
            if ln == "desync":
                break
        return out
    return list(lines)


def tie_problems(stats) -> list[str]:
    out = []
    if _stats["laws"]:
        out.append("TlsEofLaws violated on a recorded trace: " + "; ".join(sorted(set(_stats["laws"]))[:3]))
    if _stats["trace_problems"]:
        out.append("trace bookkeeping: " + "; ".join(sorted(set(_stats["trace_problems"]))[:3]))
    if tr9._last_info.get("problems"):
        out.append("translator: " + "; ".join(tr9._last_info["problems"][:3]))
    return out


# ------------------------------------------------------------------------------------------------------------------------
# classification, shrinking, known findings
# ------------------------------------------------------------------------------------------------------------------------

def nontrivial(case: dict, real: list[str]) -> str | None:
    k = case["kind"]
    if k == "cut":
        m = e9.baseline(case["role"], case["tls"], list(case["recs"]), bool(case.get("notify", True)))
        c = e9.classify(m, case.get("cut"))
        if case.get("ignore_eof"):
            _, term = _terminal(real)
            key = f"{c}/sc={int(bool(case.get('sc', True)))}"
            _stats["ignore_eof"][key] = (term[:1] or [_field(real, "hs")])[0]
            return "ignore-eof-bit/" + c
        _stats["classes"][c] = _stats["classes"].get(c, 0) + 1
        if c == "complete" and bool(case.get("notify", True)):
            return None
        return f"{case.get('tr', 'async')}/{c}/sc={int(bool(case.get('sc', True)))}"
    if k == "close":
        key = f"close/{case.get('tr', 'async')}/{case.get('peer')}/sc={int(bool(case.get('sc', True)))}"
        if case.get("reads") is not None:
            inbio = _field(real, "unread-in-bio")
            key += "/unread:" + _delivery(case).split("=")[0] + ("/part-of-a-record-read" if case.get("bufsize", 65536) < max(case["recs"] or [0]) else "") \
                + ("/bio>0" if inbio not in (None, "0", "?") else "")
            _stats["unread"][key] = _stats["unread"].get(key, 0) + 1
        return key
    if k == "closesend":
        key = (f"closesend/senders={case.get('senders', 1)}/release={case.get('release', 'after')}/sc={int(bool(case.get('sc', True)))}")
        _stats["sendrace"][key] = _stats["sendrace"].get(key, 0) + 1
        return key
    if k == "script":
        return "script/" + ("aclose" if "op aclose" in case["lines"] else "wrap" if case["lines"][-1].startswith(("t ", "s ")) and
                            len([x for x in case["lines"] if x.startswith("op ")]) == 1 else "recv")
    if k == "syncscript":
        return "syncscript"
    if k == "client":
        return "client/" + case.get("which", "")
    if k == "listen":
        cl = sorted({_listen_class(case, i).split("/")[0] + ("/" + c["fault"] if c.get("fault") else "")
                     for i, c in enumerate(case["conns"])})
        key = f"listen/{'+'.join(cl)}/sc={int(bool(case.get('sc', True)))}/eh={case.get('eh', 'custom')}"
        _stats["listen"][key] = _stats["listen"].get(key, 0) + 1
        return key
    if k == "endpoint":
        from vlib import c09_endpoint as p9
        key = p9.class_key(case, real)
        _stats["endpoint"][key] = _stats["endpoint"].get(key, 0) + 1
        layer = f"{p9.LAYER_NAME[(case.get('tr', 'async'), case['layer'])]}/{case.get('proto', 'stream')}/{'iter' if case.get('how') == 'iter' else 'recv_packet'}"
        for ln in real:
            if ln.startswith("ctl "):
                _stats["endpoint_clean"].setdefault(layer, set()).add(ln[4:])
        cls = key.split("/")[4]
        if cls not in ("handshake", "complete", "?"):
            for ln in real:
                if ln.startswith("t "):
                    _stats["endpoint_trunc"].setdefault(f"{layer}/sc={p9._sc_txt(case)}", set()).add(ln[2:])
        return key
    if k == "closerace":
        c = _race_class(case, real)
        key = f"closerace/{case.get('order', 'parked')}/{c}/sc={int(bool(case.get('sc', True)))}"
        _stats["race"][key] = _stats["race"].get(key, 0) + 1
        _, term = _terminal(real)
        if term:
            _stats["race_first"].setdefault(c.split("/")[0] + f"/sc={int(bool(case.get('sc', True)))}", set()).add(term[0])
        return key
    return None


def shrink(case: dict):
    if case["kind"] in ("cut", "close"):
        recs = list(case.get("recs") or [])
        if case.get("bufsize", 4096) != 4096:
            yield {**case, "bufsize": 4096}
        if case.get("frag"):
            yield {**case, "frag": 0}
        if case.get("max_frag", 4096) != 4096:
            yield {**case, "max_frag": 4096}
        if case["kind"] == "close" and case.get("reads") is not None:
            # unread data at close time: fewer records, fewer reads, the plain burst delivery, whole-record reads
            rd = int(case["reads"])
            if len(recs) > 1:
                c2 = {k: v for k, v in case.items() if k != "chunks"}
                yield {**c2, "recs": recs[:-1], "reads": min(rd, len(recs) - 1), "burst": True}
                yield {**c2, "recs": recs[1:], "reads": max(rd - 1, 0), "burst": True}
            if rd > 0:
                yield {**case, "reads": rd - 1}
            if case.get("chunks"):
                yield {**{k: v for k, v in case.items() if k != "chunks"}, "burst": True}
            if case.get("method", "recv") != "recv":
                yield {**case, "method": "recv"}
        if case["kind"] == "cut" and case.get("cut") is not None and recs:
            # drop the last record when the cut lies before it (the offset keeps its meaning)
            m = e9.baseline(case["role"], case["tls"], recs, bool(case.get("notify", True)))
            if len(recs) > 1 and case["cut"] <= m["rec_ends"][-2]:
                yield {**case, "recs": recs[:-1]}
    elif case["kind"] == "listen":
        conns = list(case["conns"])
        if len(conns) > 1:
            for i in range(len(conns)):
                yield {**case, "conns": [conns[i]]}
        if case.get("eh", "custom") != "custom":
            yield {**case, "eh": "custom"}
        for i, c in enumerate(conns):
            for k, v in (("frag", 0), ("max_frag", 4096), ("bufsize", 4096), ("method", "recv")):
                if c.get(k, v) != v:
                    yield {**case, "conns": conns[:i] + [{**c, k: v}] + conns[i + 1:]}
            if c.get("recs") and c.get("cut") is not None and not c.get("fault"):
                m = e9.baseline("server", case["tls"], list(c["recs"]), bool(c.get("notify", True)))
                if c["cut"] < m["hs_end"]:
                    yield {**case, "conns": conns[:i] + [{**c, "recs": []}] + conns[i + 1:]}
    elif case["kind"] == "endpoint":
        from vlib import c09_endpoint as p9
        yield from p9.shrink(case)
    elif case["kind"] == "closesend":
        for k, v in (("senders", 1), ("size", 1), ("delay", 0), ("frag", 0), ("recs", [])):
            if case.get(k, v) != v:
                yield {**case, k: v}
    elif case["kind"] == "closerace":
        for k, v in (("bufsize", 4096), ("max_frag", 4096), ("frag", 0), ("delay", 0), ("gap", 1), ("hold_extra", 0)):
            if case.get(k, v) != v:
                yield {**case, k: v}
    elif case["kind"] == "script":
        lines = list(case["lines"])
        idx = [i for i, ln in enumerate(lines) if ln.startswith("op ")]
        if len(idx) > 2:
            yield {**case, "lines": lines[:idx[-1]]}
    elif case["kind"] == "syncscript":
        ops = list(case["ops"])
        for i in range(len(ops)):
            if len(ops) > 1:
                yield {**case, "ops": ops[:i] + ops[i + 1:]}


def known_key(case: dict, real: list[str], why: str) -> str:
    k = case["kind"]
    if k == "cut":
        m = e9.baseline(case["role"], case["tls"], list(case["recs"]), bool(case.get("notify", True)))
        return f"kind=cut,tr={case.get('tr', 'async')},class={e9.classify(m, case.get('cut')).split('/')[0]},sc={int(bool(case.get('sc', True)))},method={case.get('method', 'recv')}"
    if k == "close":
        return (f"kind=close,tr={case.get('tr', 'async')},peer={case.get('peer')},sc={int(bool(case.get('sc', True)))}"
                + (",unread=1" if case.get("reads") is not None else ""))
    if k == "closesend":
        return f"kind=closesend,senders={case.get('senders', 1)},release={case.get('release', 'after')},sc={int(bool(case.get('sc', True)))}"
    if k == "listen":
        cl = sorted({_listen_class(case, i).split("/")[0] + ("/" + c["fault"] if c.get("fault") else "")
                     for i, c in enumerate(case["conns"])})
        return f"kind=listen,class={'+'.join(cl)},sc={int(bool(case.get('sc', True)))},started={int('handler was started' in why)}"
    if k == "endpoint":
        from vlib import c09_endpoint as p9
        return p9.known_key(case, real, why)
    if k == "script" and "handing" in why:
        return "kind=script,why=alert_not_handed_over"
    if k == "closerace":
        return (f"kind=closerace,order={case.get('order', 'parked')},end={_race_class(case, real).split('/')[0]},"
                f"sc={int(bool(case.get('sc', True)))},method={case.get('method', 'recv')}")
    return f"kind={k},why={why[:40].replace(' ', '_')}"


# ------------------------------------------------------------------------------------------------------------------------
# generation
# ------------------------------------------------------------------------------------------------------------------------

ALPHABET = ["ssl.SSLError", "ssl.SSLZeroReturnError", "ssl.SSLWantReadError", "ssl.SSLWantWriteError", "ssl.SSLSyscallError",
            "ssl.SSLEOFError", "ssl.SSLCertVerificationError", "builtins.OSError", "builtins.ConnectionResetError",
            "builtins.BrokenPipeError", "builtins.TimeoutError", "builtins.ValueError", "builtins.RuntimeError",
            "builtins.MemoryError", "builtins.Exception"]
SSL_ONLY = [a for a in ALPHABET if a.startswith("ssl.")]
TR_ERRORS = ["builtins.OSError", "builtins.ConnectionResetError", "builtins.BrokenPipeError"]


def script_cases() -> list[dict]:
    out: list[dict] = []
    hs_ok = ["op wrap", "s ret 0 0 0"]
    for sc in (True, False):
        for meth in ("recv", "recv_into"):
            op = "op " + meth
            for cls in ALPHABET:
                for pat in (0, 1):
                    if pat and not cls.startswith("ssl."):
                        continue
                    first = [op, f"s raise {cls} {pat} 0 0"]
                    if cls == "ssl.SSLWantReadError":
                        first += ["t eof", "s raise ssl.SSLEOFError 1 0 0"]
                    elif cls == "ssl.SSLWantWriteError":
                        first += ["t ok", "s ret 3 0 0"]
                    lines = hs_ok + first + [op, "s raise ssl.SSLEOFError 0 0 0", op, "s ret 0 0 0"]
                    out.append({"kind": "script", "sc": sc, "lines": lines})
            # WANT_READ paths: data then more, pending output flushed first, failures of the wrapped transport
            out.append({"kind": "script", "sc": sc, "lines": hs_ok + [op, "s raise ssl.SSLWantReadError 0 0 0", "t n 9",
                                                                      "s raise ssl.SSLWantReadError 0 0 0", "t n 20", "s ret 7 0 0",
                                                                      op, "s ret 2 0 0", op, "s raise ssl.SSLWantReadError 0 0 0", "t eof",
                                                                      "s ret 4 0 0", op, "s raise ssl.SSLEOFError 1 0 0"]})
            out.append({"kind": "script", "sc": sc, "lines": hs_ok + [op, "s raise ssl.SSLWantReadError 0 11 0", "t ok", "t eof",
                                                                      "s raise ssl.SSLError 1 0 0", op, "s raise ssl.SSLError 0 0 0"]})
            for e in TR_ERRORS:
                out.append({"kind": "script", "sc": sc, "lines": hs_ok + [op, "s raise ssl.SSLWantReadError 0 0 0", f"t raise {e}",
                                                                          op, "s raise ssl.SSLEOFError 0 0 0"]})
                out.append({"kind": "script", "sc": sc, "lines": hs_ok + [op, "s raise ssl.SSLWantReadError 0 5 0", f"t raise {e}",
                                                                          op, "s raise ssl.SSLEOFError 1 0 0"]})
            out.append({"kind": "script", "sc": sc, "lines": hs_ok + [op, "s raise ssl.SSLWantWriteError 0 5 0", "t raise builtins.BrokenPipeError",
                                                                      op, "s ret 0 0 0"]})
            out.append({"kind": "script", "sc": sc, "lines": hs_ok + [op, "s raise ssl.SSLWantReadError 0 0 0", "t cancel",
                                                                      op, "s ret 1 0 0"]})
            out.append({"kind": "script", "sc": sc, "lines": hs_ok + [op, "s ret 5 13 0", op, "s raise ssl.SSLWantReadError 0 0 0", "t ok", "t eof",
                                                                      "s raise ssl.SSLEOFError 1 0 0"]})
        # wrap
        out.append({"kind": "script", "sc": sc, "lines": ["op wrap", "s raise ssl.SSLWantReadError 0 517 0", "t ok", "t n 100",
                                                          "s raise ssl.SSLWantReadError 0 0 0", "t n 900", "s ret 0 80 0", "t ok",
                                                          "op recv", "s ret 3 0 0"]})
        out.append({"kind": "script", "sc": sc, "lines": ["op wrap", "s raise ssl.SSLWantReadError 0 517 0", "t ok", "t n 100",
                                                          "s raise ssl.SSLWantReadError 0 0 0", "t eof", "s raise ssl.SSLEOFError 1 0 0"]})
        out.append({"kind": "script", "sc": sc, "lines": ["op wrap", "s raise ssl.SSLWantReadError 0 517 0", "t ok", "t timeout"]})
        out.append({"kind": "script", "sc": sc, "lines": ["op wrap", "s raise ssl.SSLWantReadError 0 517 0", "t raise builtins.ConnectionResetError"]})
        out.append({"kind": "script", "sc": sc, "lines": ["op wrap", "s raise ssl.SSLWantReadError 0 517 0", "t cancel"]})
        out.append({"kind": "script", "sc": sc, "lines": ["op wrap", "s raise ssl.SSLCertVerificationError 0 7 0"]})
        out.append({"kind": "script", "sc": sc, "lines": ["op wrap", "s raise builtins.ValueError 0 0 0"]})
        # aclose
        closes = [
            ["s raise ssl.SSLWantReadError 0 24 1", "t ok", "t n 24", "s ret 0 0 0", "t ok"],
            ["s ret 0 24 1", "t ok", "t ok"],
            ["s raise ssl.SSLWantReadError 0 24 1", "t ok", "t eof", "s raise ssl.SSLEOFError 1 0 0", "t ok"],
            ["s raise ssl.SSLWantReadError 0 24 1", "t ok", "t eof", "s raise ssl.SSLSyscallError 0 0 0", "t ok"],
            ["s raise ssl.SSLWantReadError 0 24 1", "t raise builtins.BrokenPipeError", "t ok"],
            ["s raise ssl.SSLWantReadError 0 24 1", "t ok", "t raise builtins.ConnectionResetError", "t ok"],
            ["s raise ssl.SSLWantReadError 0 24 1", "t ok", "t timeout"],
            ["s raise ssl.SSLWantReadError 0 24 1", "t timeout"],
            ["s raise ssl.SSLWantReadError 0 24 1", "t ok", "t cancel"],
            ["s raise ssl.SSLWantReadError 0 24 1", "t cancel"],
            ["s raise ssl.SSLError 0 0 0", "t ok"],
            ["s raise builtins.ValueError 0 0 0"],
            ["s raise ssl.SSLWantWriteError 0 24 1", "t ok", "s ret 0 0 0", "t ok"],
            ["s raise ssl.SSLWantReadError 0 24 1", "t ok", "t n 24", "s ret 0 0 0", "t raise builtins.OSError"],
            ["s raise ssl.SSLWantReadError 0 24 1", "t ok", "t n 24", "s ret 0 0 0", "t cancel"],
            # unwrap() WRITES the alert into the outgoing BIO and then RAISES (application data received from the peer and not
            # read yet: OpenSSL's "application data after close notify"; also the EOF / zero-return / syscall flavours):
            # with the clause `except SSLError: … __flush_pending_writes()` the alert is sent before the inner close (a tree
            # without the clause leaves one response unused: model and real agree on that too, the oracle does not)
            ["s raise ssl.SSLError 0 24 1", "t ok", "t ok"],
            ["s raise ssl.SSLError 1 31 1", "t ok", "t ok"],
            ["s raise ssl.SSLEOFError 1 24 1", "t ok", "t ok"],
            ["s raise ssl.SSLEOFError 0 24 1", "t ok", "t ok"],
            ["s raise ssl.SSLZeroReturnError 0 24 1", "t ok", "t ok"],
            ["s raise ssl.SSLSyscallError 0 24 1", "t ok", "t ok"],
            ["s raise ssl.SSLCertVerificationError 0 24 1", "t ok", "t ok"],
            ["s raise ssl.SSLError 0 24 1", "t raise builtins.BrokenPipeError", "t ok"],           # the flush fails: suppressed
            ["s raise ssl.SSLError 0 24 1", "t raise builtins.OSError", "t raise builtins.OSError"],
            ["s raise ssl.SSLError 0 24 1", "t cancel"],                                           # cancelled inside the flush
            ["s raise ssl.SSLError 0 24 1", "t ok", "t cancel"],
            ["s raise ssl.SSLError 0 24 1", "t ok", "t raise builtins.OSError"],
            # the alert went out on the WANT_READ / WANT_WRITE branch, a later unwrap() fails with nothing left to flush
            ["s raise ssl.SSLWantReadError 0 24 1", "t ok", "t n 40", "s raise ssl.SSLError 0 0 0", "t ok"],
            ["s raise ssl.SSLWantWriteError 0 24 1", "t ok", "s raise ssl.SSLError 0 0 0", "t ok"],
            # … or with more output (a second alert): flushed as well
            ["s raise ssl.SSLWantReadError 0 24 1", "t ok", "t n 40", "s raise ssl.SSLError 0 7 1", "t ok", "t ok"],
            # a non-SSL OSError out of unwrap() (not an OpenSSL answer): `except OSError: pass`, the clause does not apply
            ["s raise builtins.OSError 0 24 1", "t ok"],
            ["s raise builtins.ConnectionResetError 0 24 1", "t ok", "t ok"],
        ]
        if (tr9._last_info.get("aclose") or {}).get("flushes_on_ssl_error"):
            # (the shutdown timeout firing inside that flush: only meaningful when the flush exists — without it the response
            #  would be consumed by the final `transport.aclose()`, outside the scope: a scripted park with no deadline)
            closes.append(["s raise ssl.SSLError 0 24 1", "t timeout"])
        for c in closes:
            if sc:
                out.append({"kind": "script", "sc": sc, "lines": hs_ok + ["op aclose"] + c + ["op aclose"]})
        if not sc:
            for last in ("t ok", "t raise builtins.OSError", "t cancel"):
                out.append({"kind": "script", "sc": sc, "lines": hs_ok + ["op aclose", last, "op aclose"]})
        out.append({"kind": "script", "sc": sc, "inner_closing": False,
                    "lines": hs_ok + ["op recv", "s raise ssl.SSLEOFError 1 0 0", "op aclose"] +
                    (["s raise ssl.SSLSyscallError 0 0 0", "t ok"] if sc else ["t ok"])})
        # (a scripted SSL object writes through the Python-level MemoryBIO.write(), which refuses after write_eof(): no script
        #  lets an SSL call produce output once an earlier call of the same script has failed with an SSLError)
        if sc:
            # output left pending by a read (no flush after a read), then the failing unwrap: everything goes out in one send
            out.append({"kind": "script", "sc": sc, "lines": hs_ok + ["op recv", "s ret 5 13 0", "op aclose",
                                                                      "s raise ssl.SSLError 0 24 1", "t ok", "t ok"]})
            out.append({"kind": "script", "sc": sc, "lines": hs_ok + ["op recv_into", "s ret 5 13 0", "op aclose",
                                                                      "s raise ssl.SSLEOFError 1 24 1", "t raise builtins.BrokenPipeError", "t ok",
                                                                      "op aclose"]})
    return out


def syncscript_cases() -> list[dict]:
    out = []
    for sc in (True, False):
        ops = ["suppress"]
        for w in ("recv", "recv_into"):
            ops += [f"recv {w} ret 0", f"recv {w} ret 5"]
            for cls in ALPHABET:
                for pat in ((0, 1) if cls in ("ssl.SSLError", "ssl.SSLEOFError") else (0,)):
                    ops.append(f"recv {w} raise {cls} {pat}")
        for o in ("1", "0"):
            ops += [f"close {o} ok", f"close {o} raise:ssl.SSLWantReadError ok", f"close {o} raise:ssl.SSLWantReadError raise:ssl.SSLWantWriteError ok",
                    f"close {o} raise:ssl.SSLEOFError", f"close {o} raise:ssl.SSLSyscallError timeout", f"close {o} raise:builtins.ValueError",
                    f"close {o} raise:ssl.SSLWantReadError timeout", f"close {o} raise:builtins.ConnectionResetError",
                    f"close {o} raise:ssl.SSLZeroReturnError"]
        out.append({"kind": "syncscript", "sc": sc, "ops": ops})
        for op in ops[:8]:
            out.append({"kind": "syncscript", "sc": sc, "ops": [op]})
    return out


def close_cases(tier: str) -> list[dict]:
    out = []
    for tr in ("async", "sync"):
        for role in ("client", "server"):
            for tls in ("1.2", "1.3"):
                for mode in ("responsive", "silent", "closed", "dropped"):
                    for sc in (True, False):
                        if tier == "quick" and role == "server" and mode in ("closed", "dropped") and not sc:
                            continue
                        recs = [5] if mode != "silent" else []
                        c = {"kind": "close", "tr": tr, "role": role, "tls": tls, "recs": recs, "peer": mode, "sc": sc, "frag": 3}
                        if tr == "async":
                            c["shutdown_timeout"] = 5
                        out.append(c)
    return out


def close_unread_cases(rng, tier: str) -> list[dict]:
    """aclose()/close() while application data received from the peer is still unread.  The peer writes its k records in one
    burst right after its handshake flight; the reader makes `reads` < k receive calls (or reads only a part of a record) and
    closes.  Delivery: `burst` (all k records in ONE read of the wrapped transport: k - reads complete records sit in the incoming
    BIO), `chunks` (one complete unread record + a part of the next one in the BIO / only a part of the next record: the rest is
    in flight), the PRNG fragmentation.  Both roles, both TLS versions, both modes, peers responsive / dropped (+ closed)."""
    out: list[dict] = []
    thorough = tier != "quick"
    for tr in ("async", "sync"):
        for role, tls in (("client", "1.3"), ("server", "1.2"), ("client", "1.2"), ("server", "1.3")):
            for mode in (("responsive", "dropped", "closed") if thorough or tr == "async" else ("responsive", "dropped")):
                for sc in (True, False):
                    base = {"kind": "close", "tr": tr, "role": role, "tls": tls, "peer": mode, "sc": sc}
                    if tr == "async":
                        base["shutdown_timeout"] = 5
                    if mode == "closed":
                        base["pre_eof"] = False
                    var: list[dict] = []
                    # k records in one transport read; the reader read 0 … k-1 of them
                    for recs in ([5, 17], [5, 17, 9]):
                        for rd in range(len(recs)):
                            var.append({"recs": recs, "reads": rd, "burst": True})
                    # a part of a decrypted record left inside the SSL object (small bufsize), nothing / one more record behind it
                    var.append({"recs": [17], "reads": 1, "bufsize": 5, "burst": True})
                    var.append({"recs": [17, 9], "reads": 2, "bufsize": 5, "burst": True})
                    var.append({"recs": [300], "reads": 3, "bufsize": 64, "burst": True})
                    if tr == "async":
                        m = e9.baseline(role, tls, [5, 17, 9], False)
                        l0, l1, l2 = (b - a for a, b in zip([m["hs_end"]] + m["rec_ends"][:-1], m["rec_ends"]))
                        # a complete record in the incoming BIO, not read, + a part of the next one (the rest in flight)
                        var.append({"recs": [5, 17, 9], "reads": 1, "chunks": [l0 + l1 + 3]})
                        var.append({"recs": [5, 17, 9], "reads": 0, "chunks": [l0, l1 + l2 - 1]})
                        var.append({"recs": [5, 17, 9], "reads": 1, "chunks": [l0 + l1]})
                        # only a part of the next record in the BIO: the unread records are still in flight (control)
                        var.append({"recs": [5, 17, 9], "reads": 1, "chunks": [l0 + 3]})
                        var.append({"recs": [5, 17, 9], "reads": 1, "chunks": [l0]})
                        var.append({"recs": [5, 17, 9], "reads": 2, "chunks": [l0 + l1 + l2 - 1, 1]})
                        # PRNG fragmentation
                        for _ in range(3 if not thorough else 12):
                            recs = rng.choice(([5, 17], [5, 17, 9], [1, 40], [33, 2, 3, 4], [20000, 5]))
                            big = sum(recs) > 2000
                            var.append({"recs": recs, "reads": rng.randrange(0, len(recs)), "frag": rng.randrange(1 << 30),
                                        "max_frag": rng.choice((4096, 65536) if big else (1, 5, 64, 4096, 65536)),
                                        "bufsize": rng.choice((4096, 65536) if big else (1, 7, 64, 65536, 65536))})
                    if not sc and not thorough:
                        var = var[::2]
                    for i, v in enumerate(var):
                        c = {**base, "frag": 3, **v}
                        c.setdefault("bufsize", 65536)
                        c["method"] = ("recv", "recv_into")[(i + (role == "server")) % 2]
                        out.append(c)
    return out


def _cut_case(tr: str, role: str, tls: str, recs: list[int], cut, sc: bool, rng, **kw) -> dict:
    c = {"kind": "cut", "tr": tr, "role": role, "tls": tls, "recs": list(recs), "cut": cut, "sc": sc,
         "method": rng.choice(("recv", "recv_into")),
         "bufsize": (rng.choices((1, 7, 64, 4096, 65536), weights=(1, 2, 3, 8, 4))[0] if sum(recs) <= 2000
                     else rng.choice((4096, 16384, 65536))),
         "frag": rng.randrange(1 << 30), "max_frag": rng.choices((1, 5, 64, 4096), weights=(1, 2, 5, 12))[0]}
    c.update(kw)
    return c


def _offsets_structured(m: dict, rng, n_inside: int) -> list[int]:
    """all record boundaries and their neighbours, every offset from the end of the handshake on, and a sample of the rest"""
    total = m["total"]
    s = set(range(m["hs_end"], total + 1))
    for (_, a, b) in m["records"]:
        for d in (-1, 0, 1, 2, 4, 5, 6):
            for x in (a + d, b + d):
                if 0 <= x <= total:
                    s.add(x)
    s.update((0, 1, total))
    rest = [x for x in range(total) if x not in s]
    rng.shuffle(rest)
    s.update(rest[:n_inside])
    return sorted(s)


def _offsets_structured_big(m: dict, rng) -> list[int]:
    total = m["total"]
    s = set(range(max(0, m["hs_end"] - 40), min(m["hs_end"] + 40, total + 1)))
    s.update(rng.sample(range(0, max(1, m["hs_end"])), min(100, max(1, m["hs_end"]))))
    s.update(range(max(0, (m["cn_start"] or total) - 40), total + 1))
    for (_, a, b) in m["records"]:
        for d in range(-8, 9):
            for x in (a + d, b + d):
                if 0 <= x <= total:
                    s.add(x)
    rest = [x for x in range(total) if x not in s]
    rng.shuffle(rest)
    s.update(rest[:400])
    return sorted(s)


def cut_cases(rng, tier: str, boost: int) -> list[dict]:
    out: list[dict] = []
    shapes_all = [("client", "1.3"), ("server", "1.2"), ("client", "1.2"), ("server", "1.3")]
    if tier == "quick":
        pick = rng.choice((0, 2))
        shapes = [shapes_all[pick], shapes_all[pick + 1]]
        rec_sets = {s: [rng.choice(([5, 17], [1, 40], [33], [2, 3, 4]))] for s in shapes}
    else:
        shapes = shapes_all
        rec_sets = {s: [[5, 17], [1, 0, 300], [], [20000]] for s in shapes}
    for role, tls in shapes:
        for recs in rec_sets[(role, tls)]:
            m = e9.baseline(role, tls, recs, True)
            # asynchronous transport: EVERY offset x both modes (a session with a very long stream — the 20000-byte write —
            # gets every offset of its handshake / close_notify / record-boundary neighbourhoods and a sample of the bulk)
            big = m["total"] > 4000
            # (the handshake bytes do not depend on the record layout: its every-offset enumeration is done once per shape)
            first = recs == rec_sets[(role, tls)][0]
            every = (_offsets_structured_big(m, rng) if big else list(range(0, m["total"] + 1)) if (tier == "quick" or first)
                     else _offsets_structured(m, rng, 100))
            for cut in every + [None]:
                for sc in (True, False):
                    out.append(_cut_case("async", role, tls, recs, cut, sc, rng))
            # blocking transport: structured sample in quick, every offset in thorough
            # (thorough: every offset for the first layout of each shape, a larger structured sample for the others)
            offs = (_offsets_structured(m, rng, 60 * boost) if tier == "quick" else
                    every if (big or first) else _offsets_structured(m, rng, 100))
            for cut in offs + [None]:
                for sc in (True, False):
                    out.append(_cut_case("sync", role, tls, recs, cut, sc, rng))
            # without the recording proxy (the SSLObject is the plain stdlib one)
            offs2 = _offsets_structured(m, rng, 10)
            rng.shuffle(offs2)
            for cut in offs2[:(80 if tier == "quick" else 400)]:
                out.append(_cut_case("async", role, tls, recs, cut, rng.random() < 0.7, rng, proxy=False))
        # a peer that never sends close_notify: the end of its stream is a truncation too
        recs = [4, 9]
        m = e9.baseline(role, tls, recs, False)
        for cut in (None, m["total"], m["total"] - 1, m["rec_ends"][0]):
            for sc in (True, False):
                for tr in ("async", "sync"):
                    out.append(_cut_case(tr, role, tls, recs, cut, sc, rng, notify=False))
        # context with OP_IGNORE_UNEXPECTED_EOF left set (outside the assumption; reported, not judged)
        m = e9.baseline(role, tls, [5], True)
        for cut in (m["hs_end"], m["rec_ends"][0], m["cn_start"] + 2, m["total"]):
            for tr in ("async", "sync"):
                out.append(_cut_case(tr, role, tls, [5], cut, True, rng, ignore_eof=True))
    return out


def _race_case(role: str, tls: str, recs: list[int], rng, **kw) -> dict:
    c = {"kind": "closerace", "role": role, "tls": tls, "recs": list(recs), "sc": True,
         "method": rng.choice(("recv", "recv_into")), "order": "parked", "hold": len(recs), "hold_extra": 0,
         "cut_in": "none", "cut_rec": 0, "cut_k": 0, "reply": True, "release": "cn-out",
         "delay": rng.choice((0, 0, 1, 2, 3)), "gap": rng.choice((0, 1, 1, 2, 3)), "abort": "oserror",
         "bufsize": rng.choices((1, 7, 64, 4096, 65536), weights=(1, 2, 3, 8, 4))[0],
         "frag": rng.randrange(1 << 30), "max_frag": rng.choices((1, 5, 64, 4096), weights=(1, 2, 5, 12))[0],
         "shutdown_timeout": 5}
    c.update(kw)
    return c


def race_cases(rng, tier: str, boost: int) -> list[dict]:
    """one task waits in recv()/recv_into(), another one calls aclose(), then the peer's stream is cut (vlib/c09_race)"""
    out: list[dict] = []
    thorough = tier != "quick"
    shapes = [("client", "1.3"), ("server", "1.2"), ("client", "1.2"), ("server", "1.3")]
    for role, tls in shapes:
        recs = [5, 17]
        m = e9.baseline(role, tls, recs, True)
        cnlen = m["cn_end"] - m["cn_start"]
        orders = ("parked", "late")
        # (1) quiet connection (everything the peer sent has been read), the reader waits, aclose(), then EVERY offset of the
        #     peer's close_notify answer (0 = dropped just before it, cnlen = complete) x recv / recv_into
        for method in ("recv", "recv_into"):
            for k in range(0, cnlen + 1):
                for order in (orders if thorough else ("parked",)):
                    for rep_ in range(3 if thorough else 1):
                        out.append(_race_case(role, tls, recs, rng, method=method, order=order, cut_in="cn", cut_k=k))
            ks = list(range(0, cnlen + 1))
            rng.shuffle(ks)
            if not thorough:
                for k in sorted(ks[:5] + [cnlen]):
                    out.append(_race_case(role, tls, recs, rng, method=method, order="late", cut_in="cn", cut_k=k))
            for order in orders:
                # the peer drops the connection at once / without answering / answers completely
                out.append(_race_case(role, tls, recs, rng, method=method, order=order, cut_in="gate"))
                out.append(_race_case(role, tls, recs, rng, method=method, order=order, cut_in="none", reply=False))
                for _ in range(2 * boost if not thorough else 8):
                    out.append(_race_case(role, tls, recs, rng, method=method, order=order, cut_in="none"))
        # (2) records still in flight when aclose() begins (gate after the handshake / after the first record / inside one)
        layouts = [(recs, 0, 0), (recs, 1, 0), (recs, 1, 3), (recs, 0, 7), ([5, 17, 9], 1, 0)]
        for rs, hold, extra in layouts:
            mm = e9.baseline(role, tls, rs, True)
            rl = [b - a for a, b in zip([mm["hs_end"]] + mm["rec_ends"][:-1], mm["rec_ends"])]
            cuts: list[dict] = [{"cut_in": "gate"}, {"cut_in": "none"}, {"cut_in": "none", "reply": False}, {"cut_in": "cn", "cut_k": 0}]
            for i in range(hold, len(rs)):
                cuts += [{"cut_in": "rec", "cut_rec": i, "cut_k": kk} for kk in sorted({extra + 1 if i == hold else 1, 5, rl[i] - 1, rl[i]})
                         if kk > (extra if i == hold else 0)]
            cuts += [{"cut_in": "cn", "cut_k": kk} for kk in ((1, 5, cnlen - 1) if not thorough else range(1, cnlen))]
            for cu in cuts:
                for order in orders:
                    for _ in range(1 if not thorough else 3):
                        if not thorough and rng.random() < 0.6:
                            continue
                        out.append(_race_case(role, tls, rs, rng, order=order, hold=hold, hold_extra=extra, **cu))
        # (3) mode off: aclose() closes the wrapped transport at once (the waiting call is aborted by the local close)
        for order in orders:
            for method in ("recv", "recv_into"):
                for abort in ("oserror", "eof"):
                    for hold in ((2,) if not thorough else (0, 1, 2)):
                        out.append(_race_case(role, tls, recs, rng, sc=False, order=order, method=method, abort=abort, hold=hold,
                                              cut_in=rng.choice(("gate", "none", "cn")), cut_k=rng.randrange(0, cnlen)))
        # (4) silent peer, the gate stays shut: the shutdown timeout closes the wrapped transport under the waiting reader
        for order in orders:
            for abort in ("oserror", "eof"):
                for method in (("recv", "recv_into") if thorough else (rng.choice(("recv", "recv_into")),)):
                    out.append(_race_case(role, tls, recs, rng, order=order, method=method, abort=abort, release="never",
                                          hold=rng.choice((1, 2))))
    return out


def sendrace_cases(rng, tier: str) -> list[dict]:
    """aclose() while another task's send_all() is parked in the wrapped transport under backpressure (vlib/c09_race.run_sendrace)"""
    out: list[dict] = []
    thorough = tier != "quick"
    for role, tls in (("client", "1.3"), ("server", "1.2"), ("client", "1.2"), ("server", "1.3")):
        for sc in (True, False):
            for senders in (1, 2):
                sizes = (1, 100, 20000) if thorough else (rng.choice((1, 100)), 20000)
                for size in sizes:
                    for delay in ((0, 1, 2, 3, 6) if thorough else (rng.choice((0, 1)), rng.choice((2, 3, 6)))):
                        if not sc and not thorough and (delay == 0 or size == 20000):
                            continue
                        out.append({"kind": "closesend", "role": role, "tls": tls, "sc": sc, "recs": rng.choice(([], [5], [5, 17])),
                                    "senders": senders, "size": size, "size2": rng.choice((1, 3, 400)), "release": "after",
                                    "delay": delay, "frag": rng.randrange(1 << 30), "max_frag": rng.choice((5, 64, 4096)),
                                    "shutdown_timeout": 5})
                out.append({"kind": "closesend", "role": role, "tls": tls, "sc": sc, "recs": [5], "senders": senders,
                            "size": rng.choice((1, 100)), "size2": 3, "release": "never", "delay": 2, "frag": rng.randrange(1 << 30),
                            "max_frag": 4096, "shutdown_timeout": 5})
    return out


def _listen_conn(recs: list[int], cut, rng, **kw) -> dict:
    c = {"recs": list(recs), "notify": True, "cut": cut, "method": rng.choice(("recv", "recv_into")),
         "bufsize": rng.choices((1, 7, 64, 4096, 65536), weights=(1, 2, 3, 8, 4))[0], "frag": rng.randrange(1 << 30),
         "max_frag": rng.choices((1, 5, 64, 4096), weights=(1, 2, 5, 12))[0], "after_close": rng.choice(("ebadf", "eof"))}
    c.update(kw)
    return c


def listen_cases(rng, tier: str, boost: int) -> list[dict]:
    """server side through the real AsyncTLSListener (vlib/c09_listen): EVERY offset of the client's handshake flights, the
    structured offsets after the handshake, stalled / corrupted handshakes, a server shut down during the handshake,
    several connections on one listener"""
    out: list[dict] = []
    thorough = tier != "quick"

    def case(tls: str, conns: list[dict], sc=None, eh=None) -> dict:
        return {"kind": "listen", "tls": tls, "sc": (rng.random() < 0.75) if sc is None else sc,
                "eh": eh or rng.choices(("custom", "default", "raising"), weights=(3, 1, 1))[0], "conns": conns}

    full = rng.choice(("1.3", "1.2"))     # quick: every offset for one version, a structured third of the other one's
    for tls in ("1.3", "1.2"):
        recs = rng.choice(([5, 17], [1, 40], [33], [2, 3, 4])) if not thorough else [5, 17]
        m = e9.baseline("server", tls, recs, True)
        hs_all = list(range(0, m["hs_end"]))
        if not thorough and tls != full:
            keep = {x for (_, a, b) in m["records"] for x in (a - 1, a, a + 1, a + 4, a + 5, a + 6, b - 1) if 0 <= x < m["hs_end"]}
            hs_all = [x for x in hs_all if x in keep or x % 3 == rng.randrange(3)]
        for cut in hs_all:
            for sc in ((True, False) if thorough else (None,)):
                out.append(case(tls, [_listen_conn(recs if rng.random() < 0.5 else [], cut, rng)], sc))
        offs = [x for x in _offsets_structured(m, rng, 0) if x >= m["hs_end"]]
        if not thorough:
            rng.shuffle(offs)
            offs = sorted(offs[:40] + [m["hs_end"], m["total"]])
        for cut in offs + [None]:
            for sc in (True, False):
                out.append(case(tls, [_listen_conn(recs, cut, rng)], sc))
        # the handshake fails in other ways: nothing more arrives (handshake timeout), a corrupted byte, server shut down
        hs_offs = sorted(set([0, 1, 5, 6, m["hs_end"] - 1] + [a for (_, a, b) in m["records"] if a < m["hs_end"]]
                             + rng.sample(range(m["hs_end"]), 12 if thorough else 5)))
        for fault in ("stall", "garbage", "cancel"):
            for k in hs_offs:
                out.append(case(tls, [_listen_conn([5], k, rng, fault=fault)]))
        # a peer that never sends close_notify
        m2 = e9.baseline("server", tls, [4, 9], False)
        for cut in (None, m2["total"], m2["total"] - 1, m2["rec_ends"][0]):
            for sc in (True, False):
                out.append(case(tls, [_listen_conn([4, 9], cut, rng, notify=False)], sc))
        # several connections accepted by one listener: failed handshakes next to sessions that work
        for _ in range(40 if thorough else 12):
            conns = [_listen_conn(recs, rng.randrange(m["hs_end"]), rng), _listen_conn(recs, None, rng),
                     _listen_conn(recs, rng.choice(offs), rng), _listen_conn([5], rng.randrange(m["hs_end"]), rng, fault="stall")]
            rng.shuffle(conns)
            out.append(case(tls, conns[:rng.choice((2, 3, 4))]))
    return out


def corpus() -> list[dict]:
    return []


def generate(rng, tier: str, boost: int):
    small: list[dict] = []
    small += script_cases()
    small += syncscript_cases()
    small += close_cases(tier)
    small += close_unread_cases(rng, tier)
    small += sendrace_cases(rng, tier)
    try:
        from vlib import c09_client as c9
        small += c9.cases(tier)
    except ImportError:
        pass
    yield from small
    cuts = cut_cases(rng, tier, boost)
    rng.shuffle(cuts)
    listens = listen_cases(rng, tier, boost)
    prefetch(listens)
    yield from listens
    races = race_cases(rng, tier, boost)
    rng.shuffle(races)
    prefetch(races)
    yield from races
    from vlib import c09_endpoint as p9
    eps = p9.cases(rng, tier, boost)
    rng.shuffle(eps)
    prefetch(eps)
    yield from eps
    step = 1400
    for i in range(0, len(cuts), step):
        chunk = cuts[i:i + step]
        prefetch(chunk)
        yield from chunk


def extra_coverage(stats) -> dict:
    return {
        "cut_offset_classes": dict(sorted(_stats["classes"].items())),
        "tls_eof_laws_violations": sorted(set(_stats["laws"]))[:5],
        "translator_problems": tr9._last_info.get("problems", []),
        "alphabet": tr9._last_info.get("classes", []),
        "ignore_eof_bit_behaviour (not judged: OP_IGNORE_UNEXPECTED_EOF set on the reader's context)": dict(sorted(_stats["ignore_eof"].items())),
        "close_race_cases (no model run: oracle only)": dict(sorted(_stats["race"].items())),
        "close_race_first_terminal_result": {k: sorted(v) for k, v in sorted(_stats["race_first"].items())},
        "close_with_unread_data_cases": dict(sorted(_stats["unread"].items())),
        "close_while_send_parked_cases (no model run: oracle only)": dict(sorted(_stats["sendrace"].items())),
        "listener_cases (AsyncTLSListener, no model run: oracle only)": dict(sorted(_stats["listen"].items())),
        "endpoint_and_client_layer_cases (repeated reads after the cut, no model run: oracle only)": dict(sorted(_stats["endpoint"].items())),
        "endpoint_clean_end_of_stream_report (control sessions: close_notify delivered)":
            {k: sorted(v) for k, v in sorted(_stats["endpoint_clean"].items())},
        "endpoint_reports_after_a_truncation (every terminal result seen, per layer and mode)":
            {k: sorted(v) for k, v in sorted(_stats["endpoint_trunc"].items())},
        "aclose_flushes_on_ssl_error (generated table)": (tr9._last_info.get("aclose") or {}).get("flushes_on_ssl_error"),
        "exhaustive_over": "asynchronous transport: every byte offset of the listed sessions x both modes; scripted engines: every class "
                      "of the alphabet x pattern x mode x recv/recv_into",
    }
