"""
C05 — Datagrams: one packet per datagram, boundaries preserved, errors isolated.

kinds of cases
  seq   : serializer (every shipped one in one-shot mode, wrappers, converter) x API (blocking DatagramEndpoint, AsyncDatagramEndpoint
          over scripted transports; UDPNetworkClient / AsyncUDPNetworkClient over loopback) x a sequence of datagrams mixing valid
          ones, malformed ones (mutations, truncations) and merged ones (two datagrams glued together) x packets to send
  queue : the real asyncio DatagramEndpointProtocol + DatagramEndpoint driven through the protocol callbacks with any interleaving
          of datagram_received / error_received / connection_lost / close / recvfrom
model   : `dg1` (one-shot interface derived from the incremental one, for harness-defined incremental serializers that do not
          override deserialize) and `dgq` (endpoint queue)
oracle  : seq: the i-th result equals the stand-alone decoding of the i-th datagram (nothing merged, split or carried over), valid
          datagrams round-trip to the sent packet, every send produces exactly one datagram that deserializes to the packet;
          queue: returned datagrams are the accepted ones in order, once each.
session 4: constructor options of every serializer (sers.vary, one-shot domain: any text encoding); packets whose serialization is
          EMPTY (an empty datagram is a datagram), sent through the blocking socket transport and UDPNetworkClient and COUNTED on
          the wire (`_wire_line`), received through every API; named-tuple struct packets with NUL bytes inside `Ns` fields;
          well-formed pickles whose loading raises (one per exception class) between valid datagrams, bare and inside wrappers.
round 5  : api "udp-iter" / "audp-iter": ONE `iter_received_packets(timeout=…)` iterator object of the blocking / asyncio UDP client
          advanced across the whole sequence (parse errors caught, the object kept; budgets 0 / 30 / None; all datagrams first or one by
          one; direct recv_packet() calls in between): k datagrams = exactly k observations in order, then the end, nothing left
          (vlib/c05_iter.py, docs/C05.md); api "sync-rx" / "async-rx": the one-directional endpoint classes; a legal packet the
          one-shot serialize() refuses is a failing input (kind "unserializable"), not a generator crash.
round 6  : wrappers x inner serializers at the size boundaries of the INNER serialization (vlib/c05_edge.py): every wrapper
          configuration (base64 x alphabets x no checksum / sha256 / keyed, zlib, bz2, wrappers of wrappers) x every inner
          serializer whose output size the harness can choose (line, raw bytes, fixed size, struct, JSON) x inner sizes 0, 1 … 8,
          31 / 32 / 33, 63 / 64 / 65, 95 / 96 / 97, … through every API above; the ordinary generator also draws packets whose
          INNERMOST serialization is empty under any wrapper.
"""
from __future__ import annotations

import asyncio
import errno
import socket
from collections.abc import Generator
from typing import Any

from vlib import c05_edge, c05_iter, core, sers, streamdrive as sd

from easynetwork.exceptions import DatagramProtocolParseError
from easynetwork.lowlevel.api_async.backend._asyncio.backend import AsyncIOBackend
from easynetwork.lowlevel.api_async.backend._asyncio.datagram.endpoint import DatagramEndpoint as AioDatagramEndpoint
from easynetwork.lowlevel.api_async.backend._asyncio.datagram.endpoint import DatagramEndpointProtocol
from easynetwork.lowlevel.api_async.endpoints.datagram import AsyncDatagramEndpoint
from easynetwork.lowlevel.api_async.transports.abc import AsyncDatagramTransport
from easynetwork.lowlevel.api_sync.endpoints.datagram import DatagramEndpoint
from easynetwork.lowlevel.api_sync.transports.abc import DatagramTransport
from easynetwork.protocol import DatagramProtocol
from easynetwork.serializers.abc import AbstractIncrementalPacketSerializer
from easynetwork.serializers.tools import GeneratorStreamReader

ID = "C05"
CLAIMED = True
TITLE = "Datagrams: one packet per datagram, boundaries preserved, errors isolated"
REQUIRED_THEOREMS = ["C05_pointwise", "C05_replace_isolated", "C05_oneshot_of_incremental", "C05_default_oneshot_roundtrip", "C05_queue_fifo"]
LEVEL_TEXT = (
    "Machine-checked proof (Lean 4): datagram receive is a pointwise map (no state), the one-shot interface derived from the "
    "incremental one accepts exactly one complete frame with nothing after it, round-trips valid payloads, and the asyncio "
    "endpoint queue returns the accepted datagrams in order, once each, under every interleaving of callbacks and recvfrom "
    "calls. Differential correspondence with the real default one-shot implementation and the real asyncio endpoint/protocol; "
    "pointwise and round-trip oracle over every shipped serializer through blocking/async endpoints and UDP clients."
)
LEVEL_NOTE = (
    "Trusted: Lean kernel + standard axioms; models tied to code by sampled correspondence; per-serializer one-shot overrides "
    "(json, line, struct, base64, compressors, pickle) are payload codecs judged by the oracle; UDP itself (loss/reordering) is "
    "outside the property."
)
TECHNIQUE = "Lean 4 theorems (map/induction over event lists) + differential correspondence + pointwise/round-trip oracle"
TRUSTED_BASE = [
    "Lean 4.33.0 kernel; axioms allowed: propext, Classical.choice, Quot.sound",
    "hand-written models Model/Datagram.lean tied by this correspondence check",
    "payload codecs are parameters",
]
ASSUMPTIONS = ["loopback UDP delivers the datagrams of one sender in order and without loss (checked: a lost datagram is an infra error, not a verdict)"]
RULE = ("seq: serializer x API x datagram sequence (valid/malformed/merged); queue: event interleavings; non-trivial = sequence contains a "
        "malformed or merged datagram next to valid ones, or a queue history with an error/None wake-up between datagrams; distinct by digest")

_backend = AsyncIOBackend()
_loop: asyncio.AbstractEventLoop | None = None


def _get_loop() -> asyncio.AbstractEventLoop:
    global _loop
    if _loop is None:
        _loop = asyncio.new_event_loop()
    return _loop


class SepIncremental(AbstractIncrementalPacketSerializer[bytes, bytes]):
    """incremental serializer that does NOT override serialize()/deserialize(): exercises the default one-shot interface"""

    def __init__(self, sep: bytes, limit: int, keep_end: bool) -> None:
        self.sep, self.limit, self.keep_end = sep, limit, keep_end

    def incremental_serialize(self, packet: bytes) -> Generator[bytes, None, None]:
        yield bytes(packet) + self.sep

    def incremental_deserialize(self) -> Generator[None, bytes, tuple[bytes, bytes]]:
        reader = GeneratorStreamReader()
        data = yield from reader.read_until(self.sep, self.limit, keep_end=self.keep_end)
        return data, reader.read_all()


class FixedIncremental(AbstractIncrementalPacketSerializer[bytes, bytes]):
    def __init__(self, n: int) -> None:
        self.n = n

    def incremental_serialize(self, packet: bytes) -> Generator[bytes, None, None]:
        yield bytes(packet)

    def incremental_deserialize(self) -> Generator[None, bytes, tuple[bytes, bytes]]:
        reader = GeneratorStreamReader()
        data = yield from reader.read_exactly(self.n)
        return data, reader.read_all()


def _build(spec: dict):
    if spec["k"] == "sepinc":
        return SepIncremental(bytes.fromhex(spec["sep"]), spec["limit"], spec.get("keep_end", False))
    if spec["k"] == "fixinc":
        return FixedIncremental(spec["size"])
    return sers.build(spec)


class _Exhausted(BaseException):
    pass


class ScriptedDgram(DatagramTransport):
    def __init__(self, datagrams: list[bytes]):
        self.inbox = list(datagrams)
        self.sent: list[bytes] = []
        self._closed = False

    def recv(self, timeout: float) -> bytes:
        if not self.inbox:
            raise _Exhausted()
        return self.inbox.pop(0)

    def send(self, data, timeout: float) -> None:
        self.sent.append(bytes(data))

    def close(self) -> None:
        self._closed = True

    def is_closed(self) -> bool:
        return self._closed

    @property
    def extra_attributes(self):
        return {}


class AsyncScriptedDgram(AsyncDatagramTransport):
    def __init__(self, datagrams: list[bytes]):
        self.inbox = list(datagrams)
        self.sent: list[bytes] = []
        self._closed = False

    async def recv(self) -> bytes:
        await asyncio.sleep(0)
        if not self.inbox:
            raise _Exhausted()
        return self.inbox.pop(0)

    async def send(self, data) -> None:
        await asyncio.sleep(0)
        self.sent.append(bytes(data))

    async def aclose(self) -> None:
        self._closed = True

    def is_closing(self) -> bool:
        return self._closed

    def backend(self):
        return _backend

    @property
    def extra_attributes(self):
        return {}


def _proto(case: dict) -> DatagramProtocol:
    return DatagramProtocol(_build(case["spec"]), sd.WrapConverter() if case.get("conv") else None)


def _res_line(fn) -> str:
    try:
        p = fn()
    except DatagramProtocolParseError as e:
        return "err parse" if type(e.error).__name__ != "PacketConversionError" else "err conv"
    except _Exhausted:
        return "exhausted"
    except Exception as e:  # noqa: BLE001
        return f"exc {type(e).__name__}"
    return sd.pkt_line(p)


def _run_seq(case: dict) -> list[str]:
    datagrams = [bytes.fromhex(d) for d in case["datagrams"]]
    to_send = [sers.dec_val(v) for v in case.get("send", [])]
    proto = _proto(case)
    conv = case.get("conv", False)
    lines: list[str] = []
    api = case["api"]
    if api == "sync":
        tr = ScriptedDgram(datagrams)
        ep = DatagramEndpoint(tr, proto)
        for _ in datagrams:
            lines.append(_res_line(lambda: ep.recv_packet(timeout=None)))
        for p in to_send:
            before = len(tr.sent)
            ep.send_packet(sd.Wrapped(p) if conv else p)
            lines.append(f"sent {len(tr.sent) - before} " + " ".join(core.hexs(x) for x in tr.sent[before:]))
        ep.close()
    elif api == "async":
        async def main():
            tr = AsyncScriptedDgram(datagrams)
            ep = AsyncDatagramEndpoint(tr, proto)
            for _ in datagrams:
                try:
                    p = await ep.recv_packet()
                    lines.append(sd.pkt_line(p))
                except DatagramProtocolParseError as e:
                    lines.append("err parse" if type(e.error).__name__ != "PacketConversionError" else "err conv")
                except _Exhausted:
                    lines.append("exhausted")
                except Exception as e:  # noqa: BLE001
                    lines.append(f"exc {type(e).__name__}")
            for p in to_send:
                before = len(tr.sent)
                await ep.send_packet(sd.Wrapped(p) if conv else p)
                lines.append(f"sent {len(tr.sent) - before} " + " ".join(core.hexs(x) for x in tr.sent[before:]))
            await ep.aclose()
        _get_loop().run_until_complete(main())
    elif api == "sync-socket":
        from easynetwork.lowlevel.api_sync.transports.socket import SocketDatagramTransport
        peer = socket.socket(socket.AF_INET, socket.SOCK_DGRAM)
        peer.bind(("127.0.0.1", 0))
        me = socket.socket(socket.AF_INET, socket.SOCK_DGRAM)
        me.bind(("127.0.0.1", 0))
        me.connect(peer.getsockname())
        peer.settimeout(3.0)
        ep = DatagramEndpoint(SocketDatagramTransport(me, retry_interval=1.0), proto)
        try:
            for d in datagrams:
                peer.sendto(d, me.getsockname())
                lines.append(_res_line(lambda: ep.recv_packet(timeout=3.0)))
            for p in to_send:
                ep.send_packet(sd.Wrapped(p) if conv else p)
                lines.append(_wire_line(me, peer))
        except (TimeoutError, socket.timeout) as e:
            raise core.InfraError(f"loopback UDP datagram lost: {e}") from e
        finally:
            ep.close()
            peer.close()
    elif api in c05_iter.ITER_APIS:
        lines.extend(c05_iter.run_iter(case, proto, datagrams))
    elif api in c05_iter.RX_APIS:
        lines.extend(c05_iter.run_rx(case, proto, datagrams, to_send, conv, ScriptedDgram, AsyncScriptedDgram, _res_line, _Exhausted,
                                     _get_loop()))
    else:
        lines.extend(_run_udp(case, proto, datagrams, to_send, conv))
    return lines


MARK = b"\x00\xffs2-end-of-send\xff\x00"


def _wire_line(me: socket.socket, peer: socket.socket) -> str:
    """what one send_packet() put on the wire: a marker datagram is sent through the SAME socket right after it (loopback keeps
    the order of one sender's datagrams); everything the peer receives before the marker was produced by the send_packet() call —
    zero datagrams is then an observation, not a time-out.  An empty UDP datagram is a datagram (recvfrom returns b"")."""
    me.send(MARK)
    got = []
    while True:
        d = peer.recvfrom(65536)[0]
        if d == MARK:
            break
        got.append(d)
    return f"sent {len(got)} " + " ".join(core.hexs(x) for x in got)


def _run_udp(case: dict, proto, datagrams: list[bytes], to_send: list[Any], conv: bool) -> list[str]:
    from easynetwork.clients.async_udp import AsyncUDPNetworkClient
    from easynetwork.clients.udp import UDPNetworkClient

    peer = socket.socket(socket.AF_INET, socket.SOCK_DGRAM)
    peer.bind(("127.0.0.1", 0))
    peer.settimeout(3.0)
    lines: list[str] = []
    try:
        if case["api"] == "udp":
            sock = socket.socket(socket.AF_INET, socket.SOCK_DGRAM)
            sock.bind(("127.0.0.1", 0))
            sock.connect(peer.getsockname())
            with UDPNetworkClient(sock, proto) as client:
                addr = client.get_local_address()
                me = (addr.host, addr.port)
                for d in datagrams:
                    peer.sendto(d, me)
                    lines.append(_res_line(lambda: client.recv_packet(timeout=3.0)))
                for p in to_send:
                    client.send_packet(sd.Wrapped(p) if conv else p)
                    lines.append(_wire_line(sock, peer))
        else:
            async def main():
                async with AsyncUDPNetworkClient(peer.getsockname(), proto) as client:
                    addr = client.get_local_address()
                    me = (addr.host, addr.port)
                    for d in datagrams:
                        peer.sendto(d, me)
                        try:
                            p = await asyncio.wait_for(client.recv_packet(), 3.0)
                            lines.append(sd.pkt_line(p))
                        except DatagramProtocolParseError as e:
                            lines.append("err parse" if type(e.error).__name__ != "PacketConversionError" else "err conv")
                        except Exception as e:  # noqa: BLE001
                            lines.append(f"exc {type(e).__name__}")
                    for p in to_send:
                        await client.send_packet(sd.Wrapped(p) if conv else p)
                        got = await asyncio.get_running_loop().run_in_executor(None, lambda: peer.recvfrom(65536)[0])
                        lines.append(f"sent 1 {core.hexs(got)}")
            asyncio.run(main())
    except (TimeoutError, socket.timeout) as e:
        raise core.InfraError(f"loopback UDP datagram lost: {e}") from e
    finally:
        peer.close()
    return lines


class FakeDgramTransport(asyncio.DatagramTransport):
    def __init__(self) -> None:
        super().__init__()
        self.closing = False

    def is_closing(self) -> bool:
        return self.closing

    def close(self) -> None:
        self.closing = True

    def abort(self) -> None:
        self.closing = True

    def sendto(self, data, addr=None) -> None:
        pass

    def get_extra_info(self, name, default=None):
        return default


def _run_queue(case: dict) -> list[str]:
    lines: list[str] = []
    loop = _get_loop()

    async def main():
        recvq: asyncio.Queue = asyncio.Queue()
        excq: asyncio.Queue = asyncio.Queue()
        proto = DatagramEndpointProtocol(loop=loop, recv_queue=recvq, exception_queue=excq)
        tr = FakeDgramTransport()
        proto.connection_made(tr)
        ep = AioDatagramEndpoint(tr, proto, recv_queue=recvq, exception_queue=excq)
        for ev in case["events"]:
            k = ev[0]
            if k == "dgram":
                proto.datagram_received(bytes.fromhex(ev[1]), ("peer", 1))
            elif k == "error":
                proto.error_received(OSError(1000 + ev[1], "scripted"))
            elif k == "lost":
                tr.closing = True
                proto.connection_lost(OSError(1000 + ev[1], "scripted") if len(ev) > 1 else None)
            elif k == "close":
                ep.close_nowait()
            elif k == "recv":
                task = loop.create_task(ep.recvfrom())
                for _ in range(3):
                    await asyncio.sleep(0)
                if not task.done():
                    task.cancel()
                    try:
                        await task
                    except asyncio.CancelledError:
                        pass
                    lines.append("wait")
                    continue
                try:
                    data, _ = task.result()
                    lines.append(f"got {core.hexs(data)}")
                except ConnectionAbortedError:
                    lines.append("aborted")
                except OSError as e:
                    lines.append(f"exc {e.errno - 1000}")
        tr.closing = True

    loop.run_until_complete(main())
    return lines


def run_real(case: dict) -> list[str]:
    if case["kind"] == "queue":
        return _run_queue(case)
    return _run_seq(case)


def model_input(case: dict, real: list[str]):
    if case["kind"] == "queue":
        ops = []
        for ev in case["events"]:
            if ev[0] == "dgram":
                ops.append(f"dgram {ev[1] or '-'}")
            else:
                ops.append(" ".join(str(x) for x in ev))
        return "dgq", ops
    spec = case["spec"]
    if spec["k"] == "sepinc" and not case.get("conv") and case["api"] in _SCRIPTED:
        return f"dg1 ru {spec['sep']} {spec['limit']} {1 if spec.get('keep_end') else 0}", [f"dgram {d or '-'}" for d in case["datagrams"]]
    if spec["k"] == "fixinc" and not case.get("conv") and case["api"] in _SCRIPTED:
        return f"dg1 re {spec['size']}", [f"dgram {d or '-'}" for d in case["datagrams"]]
    return None


_SCRIPTED = ("sync", "async") + c05_iter.RX_APIS


def model_post(case: dict, lines: list[str]) -> list[str]:
    if case["kind"] == "queue":
        return lines
    out = []
    for ln in lines:
        if ln.startswith("ok "):
            h = ln.split()[1]
            out.append("pkt b:" + (h if h != "-" else "-"))
        elif ln in ("missing", "extra", "limit"):
            out.append("err parse")
        else:
            out.append(ln)
    return out


def real_for_diff(case: dict, real: list[str]) -> list[str]:
    return [ln for ln in real if not ln.startswith(c05_iter.META)]


def _standalone(case: dict, d: bytes) -> str:
    proto = _proto(case)
    return _res_line(lambda: proto.build_packet_from_datagram(d))


def _exp_received(case: dict, p: Any) -> Any:
    spec = case["spec"]
    if spec["k"] == "sepinc":
        return bytes(p) + (bytes.fromhex(spec["sep"]) if spec.get("keep_end") else b"")
    if spec["k"] == "fixinc":
        return bytes(p)
    return sers.expected_received(spec, p)


def oracle(case: dict, real: list[str]) -> str | None:
    bad = ("harness-exc",) if case["kind"] == "queue" else ("harness-exc", "exc ")
    if any(ln.startswith(bad) for ln in real):
        return "unexpected exception: " + next(ln for ln in real if ln.startswith(bad))
    if case["kind"] == "queue":
        accepted, attached = [], True
        for ev in case["events"]:
            if ev[0] == "dgram" and attached:
                accepted.append(ev[1] or "-")
            elif ev[0] == "lost":
                attached = False
        got = [ln.split()[1] for ln in real if ln.startswith("got ")]
        if got != accepted[:len(got)]:
            return f"recvfrom returned {got[:6]}, accepted datagrams were {accepted[:6]}"
        return None
    datagrams = [bytes.fromhex(d) for d in case["datagrams"]]
    results = [ln for ln in real if not ln.startswith(c05_iter.META)]
    if case["api"] in c05_iter.ITER_APIS:
        why = c05_iter.oracle_meta(case, real)
        if why:
            return why
    if len(results) != len(datagrams):
        return f"{len(datagrams)} datagrams gave {len(results)} results"
    spec = case["spec"]
    for i, d in enumerate(datagrams):
        # independent reference for the default one-shot interface: exactly one complete frame and nothing else
        if spec["k"] == "sepinc" and not case.get("conv"):
            sep = bytes.fromhex(spec["sep"])
            j = d.find(sep)
            ok = j != -1 and j + len(sep) == len(d) and j <= spec["limit"]
            ref = sd.pkt_line(d if spec.get("keep_end") else d[:j]) if ok else "err parse"
            if results[i] != ref:
                return f"datagram #{i} ({d.hex()}) gave {results[i]!r}; one complete frame and nothing else would give {ref!r}"
        if spec["k"] == "fixinc" and not case.get("conv"):
            ref = sd.pkt_line(d) if len(d) == spec["size"] else "err parse"
            if results[i] != ref:
                return f"datagram #{i} ({d.hex()}) gave {results[i]!r}; exactly {spec['size']} bytes would give {ref!r}"
        exp = _standalone(case, d)
        if results[i] != exp:
            return f"datagram #{i} gave {results[i]!r} but decodes on its own to {exp!r} (merged / split / carried over?)"
    # valid ones round-trip to the packet they were made from
    for i, v in enumerate(case.get("valid", [])):
        if v is not None:
            p = sers.dec_val(v)
            e = _exp_received(case, p)
            exp = sd.pkt_line(sd.Wrapped(e) if case.get("conv") else e)
            if results[i] != exp:
                return f"datagram #{i} made from packet {exp!r} was received as {results[i]!r}"
    sent = [ln for ln in real if ln.startswith("sent ")]
    if len(sent) != len(case.get("send", [])):
        return f"{len(case.get('send', []))} send_packet calls, {len(sent)} observed"
    for ln, v in zip(sent, case.get("send", [])):
        parts = ln.split()
        if parts[1] != "1":
            return f"send_packet({sd.pkt_line(sers.dec_val(v))[4:]}) produced {parts[1]} datagrams (api {case['api']})"
        back = _standalone(case, b"" if parts[2] == "-" else bytes.fromhex(parts[2]))
        p = sers.dec_val(v)
        e = _exp_received(case, p)
        exp = sd.pkt_line(sd.Wrapped(e) if case.get("conv") else e)
        if back != exp:
            return f"the datagram produced for {exp!r} deserializes to {back!r}"
    return None


def nontrivial(case: dict, real: list[str]) -> str | None:
    if case["kind"] == "queue":
        evs = [e[0] for e in case["events"]]
        if "error" in evs or "lost" in evs:
            return "queue/wakeups"
        return None
    kinds = set(case.get("kinds", []))
    if kinds - {"valid"}:
        return f"{case['spec']['k']}/{case['api']}/" + "+".join(sorted(kinds - {'valid'}))
    return None


def shrink(case: dict):
    if case["kind"] == "queue":
        ev = case["events"]
        for i in range(len(ev)):
            if len(ev) > 1:
                yield {**case, "events": ev[:i] + ev[i + 1:]}
        return
    ds = case["datagrams"]
    for i in range(len(ds)):
        if len(ds) > 1:
            yield {**case, "datagrams": ds[:i] + ds[i + 1:], "valid": case["valid"][:i] + case["valid"][i + 1:],
                   "kinds": case["kinds"][:i] + case["kinds"][i + 1:]}
    if case.get("send"):
        yield {**case, "send": []}
        send = case["send"]
        if len(send) > 1:
            yield {**case, "send": send[:len(send) // 2]}
            yield {**case, "send": send[len(send) // 2:]}
            for i in range(len(send)):
                yield {**case, "send": send[:i] + send[i + 1:]}


def known_key(case: dict, real: list[str], why: str) -> str:
    return f"kind={case['kind']},api={case.get('api')}"


def _gen_spec(rng) -> dict:
    """every serializer in one-shot mode, each also with debug=True (error reports carry error_info), wrappers with debug
    inner serializers, packets that keep their deserialize() argument, file toys with every expected_load_error set"""
    spec = _gen_spec0(rng)
    if spec["k"] not in ("sepinc", "fixinc") and rng.random() < 0.3:
        spec["debug"] = True
    if "inner" in spec and rng.random() < 0.3:
        spec["inner"] = {**spec["inner"], "debug": True}
    # session 4: constructor options (encodings incl. utf-16 / idna…, error handlers, JSON encoder / decoder knobs, struct formats
    # and byte orders, named-tuple fields, keyed checksums, compression levels, pickle protocols, inner serializers of wrappers)
    if spec["k"] not in ("sepinc", "fixinc") and rng.random() < 0.55:
        sers.vary(rng, spec, oneshot=True)
    return spec


def _gen_spec0(rng) -> dict:
    k = rng.choice(["sepinc", "sepinc", "fixinc", "line", "line", "json", "struct", "ntstruct", "b64", "zlib", "bz2", "autosep", "fixed",
                    "filetoy", "pickle"])
    if k == "sepinc":
        return {"k": "sepinc", "sep": rng.choice(["0a", "0d0a", "7c7c", "3c7c3e", "61626364"]), "limit": rng.choice([8, 16, 64]), "keep_end": rng.random() < 0.3}
    if k == "fixinc":
        return {"k": "fixinc", "size": rng.choice([1, 3, 5])}
    if k == "line":
        return {"k": "line", "newline": rng.choice(["LF", "CRLF", "CRLF", "CR"]), "keep_end": rng.random() < 0.3,
                "encoding": rng.choice(["utf-8", "ascii"]), "limit": 64}
    if k == "json":
        return {"k": "json", "use_lines": rng.random() < 0.5, "limit": 1024}
    if k == "struct":
        return {"k": "struct", "format": rng.choice(["!HB", "!IH"])}
    if k == "ntstruct":
        return {"k": "ntstruct"}
    inner = rng.choice([{"k": "json", "use_lines": True, "limit": 65536}, {"k": "pickle"},
                        {"k": "line", "newline": "LF", "limit": 65536, "encoding": "utf-8"}])
    if k == "b64":
        return {"k": "b64", "inner": inner, "alphabet": rng.choice(["standard", "urlsafe"]), "checksum": rng.random() < 0.5,
                "separator": rng.choice(["0d0a", "0d0a", "3c7c3e", "0a"]), "limit": 65536}
    if k in ("zlib", "bz2"):
        return {"k": k, "inner": inner}
    if k == "autosep":
        spec = {"k": "autosep", "sep": rng.choice(["0a", "0d0a", "3c7c3e", "0d0a0d0a"]), "limit": 64, "check": True}
        if rng.random() < 0.3:
            spec["hold"] = rng.choice(["arg", "text"])
        return spec
    if k == "fixed":
        spec = {"k": "fixed", "size": rng.choice([1, 3, 8])}
        if rng.random() < 0.3:
            spec["hold"] = rng.choice(["arg", "text"])
        return spec
    if k == "filetoy":
        spec = {"k": rng.choice(sers.FILE_TOYS), "limit": 256}
        e = rng.choice(sers.EXPECTED_KEYS)
        if e != "toy":
            spec["expected"] = e
        return spec
    return {"k": "pickle"}


def _gen_packet(rng, spec: dict) -> Any:
    if spec["k"] == "sepinc":
        sep = bytes.fromhex(spec["sep"])
        while True:
            p = bytes(rng.choice(b"ab" + sep) for _ in range(rng.randint(0, min(6, spec["limit"]))))
            if (p + sep).find(sep) == len(p):
                return p
    if spec["k"] == "fixinc":
        return bytes(rng.randrange(256) for _ in range(spec["size"]))
    if rng.random() < 0.12:
        # a packet whose one-shot serialization is EMPTY ("" for the line serializer, also inside base64 / behind a pass-through
        # serializer): an empty datagram is a datagram
        p = sers.empty_packet(spec)
        if p is None:
            # round 6: … or whose INNERMOST serialization is empty while the wrapper adds something of its own (digest, compressor
            # header): the shortest datagram the wrapper can produce
            p = c05_edge.leaf_empty_packet(spec)
        if p is not None:
            return p
    return sers.gen_packet(rng, spec, 8)


class _SerializeFailed(Exception):
    pass


class _Checked:
    """the generator builds its datagrams with the real one-shot serialize(): a legal packet that it refuses must end as a failing
    INPUT (the packet goes to send_packet() of the case's API), not as a crash of the generator"""

    def __init__(self, ser) -> None:
        self.ser = ser

    def serialize(self, p) -> bytes:
        try:
            return self.ser.serialize(p)
        except Exception as e:  # noqa: BLE001
            raise _SerializeFailed(sers.enc_val(p)) from e


def _gen_seq(rng, api: str) -> dict:
    spec = _gen_spec(rng)
    try:
        return _gen_seq1(rng, api, spec)
    except _SerializeFailed as e:
        return {"kind": "seq", "spec": spec, "api": api if api not in c05_iter.ITER_APIS else "udp", "datagrams": [], "valid": [],
                "kinds": ["unserializable"], "send": [e.args[0]], "conv": False}


def _gen_seq1(rng, api: str, spec: dict) -> dict:
    ser = _Checked(_build(spec))
    datagrams, valid, kinds = [], [], []
    for _ in range(rng.randint(1, 7)):
        p = _gen_packet(rng, spec)
        d = ser.serialize(p)
        r = rng.random()
        if r < 0.5:
            datagrams.append(d); valid.append(sers.enc_val(p)); kinds.append("valid")
        elif r < 0.65:
            d2 = ser.serialize(_gen_packet(rng, spec))
            datagrams.append(d + d2); valid.append(None); kinds.append("merged")
        elif r < 0.8:
            cut = rng.randint(0, max(0, len(d) - 1))
            datagrams.append(d[:cut]); valid.append(None); kinds.append("truncated")
        elif r < 0.9:
            b = bytearray(d or b"\x00")
            b[rng.randrange(len(b))] ^= 1 << rng.randrange(8)
            datagrams.append(bytes(b)); valid.append(None); kinds.append("flipped")
        else:
            datagrams.append(rng.randbytes(rng.randint(0, 12))); valid.append(None); kinds.append("random")
    if spec["k"] == "json" and rng.random() < 0.25:
        # structurally extreme documents inside one datagram: nesting beyond the recursion limit, integer literal beyond the
        # int/str conversion limit -> exactly one parse error each, the neighbours unaffected
        for _ in range(rng.randint(1, 2)):
            d = rng.choice([b"[" * 3000 + b"]" * 3000, b'{"a":' * 2000 + b"1" + b"}" * 2000, b"9" * 5000, b"[" + b"9" * 4400 + b"]"])
            i = rng.randint(0, len(datagrams))
            datagrams.insert(i, d); valid.insert(i, None); kinds.insert(i, "extreme")
    # (an empty UDP datagram is legal and delivered on loopback — verified with plain sockets and with both clients — so empty
    #  datagrams stay in the sequence for the socket APIs too, in both directions.  One exception, reported in the notes: the
    #  asyncio transport of CPython 3.12 drops an empty sendto(), so AsyncUDPNetworkClient.send_packet("") sends nothing.)
    send = [sers.enc_val(_gen_packet(rng, spec)) for _ in range(rng.randint(0, 2 if api in _SCRIPTED else 4))]
    if api in c05_iter.ITER_APIS:
        send = []
    if api == "audp" and not sers.REPORTED:
        send = [v for v in send if ser.serialize(sers.dec_val(v))]
    conv = rng.random() < 0.2
    case = {"kind": "seq", "spec": spec, "api": api, "datagrams": [d.hex() for d in datagrams], "valid": valid, "kinds": kinds,
            "send": send, "conv": conv}
    if api in c05_iter.ITER_APIS:
        case.update(_gen_iter_schedule(rng, api, len(datagrams)))
    return case


def _gen_iter_schedule(rng, api: str, k: int) -> dict:
    """round 5: how the iterator object is used (see vlib/c05_iter.py)"""
    r = rng.random()
    plan = ["n"] * k if r < 0.6 else [rng.choice("nnr") for _ in range(k)]
    if "n" not in plan:
        plan[rng.randrange(k)] = "n"
    return {"timeout": rng.choice([0, 0, 30.0, None] if api == "udp-iter" else [30.0, 30.0, None]), "plan": plan,
            "batch": rng.choice(["all", "all", "each"]), "reiter": rng.random() < 0.25}


def _gen_queue(rng) -> dict:
    events: list[list] = []
    n = 0
    for _ in range(rng.randint(1, 14)):
        r = rng.random()
        if r < 0.4:
            n += 1
            events.append(["dgram", bytes([n % 256, rng.randrange(256)]).hex()])
        elif r < 0.75:
            events.append(["recv"])
        elif r < 0.87:
            events.append(["error", rng.randint(1, 9)])
        elif r < 0.93:
            events.append(["lost"] + ([rng.randint(1, 9)] if rng.random() < 0.5 else []))
        else:
            events.append(["close"])
    return {"kind": "queue", "events": events}


def corpus() -> list[dict]:
    out = [{"kind": "queue", "events": [["dgram", "01"], ["error", 7], ["dgram", "02"], ["recv"], ["recv"], ["recv"], ["recv"]]},
           {"kind": "queue", "events": [["dgram", "01"], ["lost", 3], ["dgram", "02"], ["recv"], ["recv"], ["recv"], ["recv"]]},
           {"kind": "queue", "events": [["close"], ["dgram", "01"], ["recv"], ["recv"]]}]
    sp = {"k": "sepinc", "sep": "0d0a", "limit": 16, "keep_end": False}
    for api in ("sync", "async"):
        out.append({"kind": "seq", "spec": sp, "api": api,
                    "datagrams": ["61620d0a", "61620d0a63640d0a", "6162", "0d0a", "61620d0a"], "valid": [sers.enc_val(b"ab"), None, None, None, sers.enc_val(b"ab")],
                    "kinds": ["valid", "merged", "truncated", "random", "valid"], "send": [sers.enc_val(b"xy")], "conv": False})
    # line serializer, one-shot: packets ending with PARTS of the newline sequence (lone CR / LF with CRLF; the other
    # control character with CR / LF) must come back unchanged; only whole trailing newline sequences are an encoding detail
    for nl, texts in (("CRLF", ["abc\r", "abc\n", "\r", "\n", "x\n\r", "a\rb", "\r\na", "\n\n\r"]), ("CR", ["abc\n", "\n", "a\rb"]), ("LF", ["abc\r", "\r", "a\nb"])):
        for dbg in (False, True):
            spec = {"k": "line", "newline": nl, "keep_end": False, "encoding": "ascii", "limit": 64, "debug": dbg}
            ser = _build(spec)
            for api in ("sync", "async"):
                out.append({"kind": "seq", "spec": spec, "api": api, "datagrams": [ser.serialize(t).hex() for t in texts],
                            "valid": [sers.enc_val(t) for t in texts], "kinds": ["valid"] * len(texts),
                            "send": [sers.enc_val(t) for t in texts], "conv": api == "async"})
    out += _session4_corpus()
    out += _round5_corpus()
    out += c05_edge.corpus()
    return out


def _round5_corpus() -> list[dict]:
    """one iterator object of each UDP client across `good BAD good good BAD BAD good good` (and a malformed first / last datagram),
    every budget, with and without direct recv_packet() calls in between; the same histories through the one-directional endpoints"""
    ev = sers.enc_val
    out = []
    line = {"k": "line", "newline": "LF", "keep_end": False, "encoding": "ascii", "limit": 64}
    js = {"k": "json", "use_lines": False, "limit": 1024}
    for spec, good, bad in ((line, ["a", "bc", "", "d", "last"], [b"\xff\xfe", b"x" * 80, b"\x80"]),
                            (js, [{"n": 1}, [1, 2, 3], "three", None, 5], [b"{", b"\xff", b"[1,"]),
                            ({"k": "struct", "format": "!HB"}, [(1, 2), (3, 4), (65535, 255), (0, 0), (7, 7)], [b"", b"\x00", b"\x00" * 4]),
                            ({"k": "b64", "inner": js, "alphabet": "standard", "checksum": True, "separator": "0d0a", "limit": 65536},
                             [{"n": 1}, [1], "x", 2, 3], [b"!!!!", b"AAAA", b"e30="]),
                            ({"k": "zlib", "inner": line}, ["a", "b", "c", "d", "e"], [b"x", b"\x78\x9c", b""]),
                            ({"k": "sepinc", "sep": "0d0a", "limit": 16, "keep_end": False}, [b"ab", b"", b"c", b"d", b"e"],
                             [b"ab", b"ab\r\ncd\r\n", b"\r\n\r\n"])):
        ser = _build(spec)
        g = [ser.serialize(p) for p in good]
        for shape in ("gBggBBgg", "Bgg", "ggB", "BBBg", "gB"):
            ds, valid, kinds, gi, bi = [], [], [], 0, 0
            for ch in shape:
                if ch == "g":
                    ds.append(g[gi % len(g)]); valid.append(ev(good[gi % len(g)])); kinds.append("valid"); gi += 1
                else:
                    ds.append(bad[bi % len(bad)]); valid.append(None); kinds.append("random"); bi += 1
            base = {"kind": "seq", "spec": spec, "datagrams": [d.hex() for d in ds], "valid": valid, "kinds": kinds, "send": [],
                    "conv": False}
            if shape == "gBggBBgg":
                for api in c05_iter.RX_APIS:
                    out.append({**base, "api": api, "send": [ev(p) for p in good[:2]]})
            for api in c05_iter.ITER_APIS:
                for timeout in ((0, 30.0, None) if api == "udp-iter" else (30.0, None)):
                    if shape != "gBggBBgg" and timeout is None:
                        continue
                    for batch in ("all", "each"):
                        out.append({**base, "api": api, "timeout": timeout, "plan": ["n"], "batch": batch, "reiter": batch == "each",
                                    "conv": timeout == 30.0 and batch == "all"})
                out.append({**base, "api": api, "timeout": 30.0, "plan": ["n", "r", "n", "n", "r", "n", "r", "n"], "batch": "all",
                            "reiter": False})
    return out


def _session4_corpus() -> list[dict]:
    """(a) packets whose one-shot serialization is EMPTY between ordinary ones, sent and received through every API (scripted
    transports, the blocking socket transport, both UDP clients): each send_packet puts exactly one datagram on the wire;
    (b) named-tuple struct packets with NUL bytes INSIDE the `Ns` fields (text and bytes fields), lone surrogates under
    surrogateescape, strip on/off — sent and received"""
    ev = sers.enc_val
    out = []
    line = {"k": "line", "newline": "LF", "keep_end": False, "encoding": "ascii", "limit": 64}
    for spec, packets in ((line, ["first", "", "second", "", "", "last"]),
                          ({"k": "b64", "inner": line, "alphabet": "urlsafe", "checksum": False, "separator": "0d0a", "limit": 64}, ["a", "", "b", ""]),
                          ({"k": "autosep", "sep": "0d0a", "limit": 64, "check": True}, [b"x", b"", b"", b"y"]),
                          ({"k": "line", "newline": "CRLF", "keep_end": True, "encoding": "utf-8", "errors": "surrogateescape", "limit": 64, "debug": True},
                           ["", "\udcff", ""])):
        ser = _build(spec)
        for api in ("sync", "async", "sync-socket", "udp", "audp"):
            send = [p for p in packets if api != "audp" or sers.REPORTED or ser.serialize(p)]
            out.append({"kind": "seq", "spec": spec, "api": api, "datagrams": [ser.serialize(p).hex() for p in packets],
                        "valid": [ev(p) for p in packets], "kinds": ["valid"] * len(packets), "send": [ev(p) for p in send],
                        "conv": api in ("async", "udp")})
    person = sers.nt_class(["name", "nickname", "age"])
    route = sers.nt_class(["ident", "address", "key"])
    for strip in (True, False):
        for spec, packets in (
            ({"k": "ntstruct", "fields": [["name", "12s"], ["nickname", "8s"], ["age", "H"]], "endian": "", "encoding": "utf-8",
              "errors": "surrogateescape", "strip": strip},
             [person("ab\0cd", "x", 1), person("\0hidden", "\0\0y", 65535), person("John", "", 20), person("caf\udce9", "\udcff\0\udc80", 7)]),
            ({"k": "ntstruct", "fields": [["ident", "I"], ["address", "4s"], ["key", "8s"]], "endian": "<", "encoding": None, "strip": strip},
             [route(2, b"\x7f\x00\x00\x01", b"\x00k\x00\x00e\xffy!"), route(0, b"\x00\x00\x00\x01", b"12345678"), route(7, b"abcd", b"\x00\x00\x00\x00\x00\x00\x00z")])):
            ser = _build(spec)
            for api in ("sync", "async", "udp"):
                out.append({"kind": "seq", "spec": spec, "api": api, "datagrams": [ser.serialize(p).hex() for p in packets],
                            "valid": [ev(p) for p in packets], "kinds": ["valid"] * len(packets), "send": [ev(p) for p in packets],
                            "conv": api == "async"})
    # (c) well-formed pickles whose loading raises (one per exception class, sers.HOSTILE_PICKLES) between valid datagrams, bare and
    # inside every wrapper: each is exactly one parse error and its neighbours are unaffected
    import base64
    import bz2
    import zlib
    pk = {"k": "pickle"}
    wrap = [(pk, lambda d: d), ({"k": "pickle", "debug": True, "proto": 2, "classes": True}, lambda d: d),
            ({"k": "b64", "inner": pk, "alphabet": "urlsafe", "checksum": False, "separator": "0d0a", "limit": 65536}, base64.urlsafe_b64encode),
            ({"k": "zlib", "inner": pk, "debug": True}, zlib.compress), ({"k": "bz2", "inner": pk}, bz2.compress)]
    for spec, enc in wrap:
        ser = _build(spec)
        good = ser.serialize([1, "a"])
        ds, valid, kinds = [], [], []
        for name, blob in sers.HOSTILE_PICKLES.items():
            ds += [good.hex(), enc(blob).hex()]; valid += [ev([1, "a"]), None]; kinds += ["valid", "hostile"]
        for api in ("sync", "async", "udp"):
            out.append({"kind": "seq", "spec": spec, "api": api, "datagrams": ds, "valid": valid, "kinds": kinds, "send": [], "conv": False})
    return out


def generate(rng, tier: str, boost: int):
    n = (2500 if tier == "quick" else 60000) * boost
    for _ in range(n):
        yield _gen_seq(rng, rng.choice(["sync", "async", "sync", "async", "sync-rx", "async-rx"]))
    for _ in range((1500 if tier == "quick" else 40000) * boost):
        yield _gen_queue(rng)
    for _ in range((160 if tier == "quick" else 1200) * boost):
        yield _gen_seq(rng, rng.choice(["udp", "udp", "sync-socket", "sync-socket", "audp"]))
    # round 5: the iterator entry points of both UDP clients (one iterator object across the whole sequence)
    for _ in range((220 if tier == "quick" else 2400) * boost):
        yield _gen_seq(rng, rng.choice(c05_iter.ITER_APIS))
    # round 6: wrappers x inner serializers at the size boundaries of the inner serialization, mixed with malformed datagrams
    for _ in range((260 if tier == "quick" else 6000) * boost):
        yield c05_edge.gen_case(rng, _gen_iter_schedule)
    # datagrams near the maximum UDP payload must not be truncated by the receive buffer size
    for size in ([1000, 16384, 16385, 40000, 65000] if tier == "quick" else [1000, 8192, 16384, 16385, 20000, 32768, 40000, 65000, 65507]):
        for api in ("udp", "audp", "sync-socket"):
            spec = {"k": "line", "newline": "LF", "keep_end": False, "encoding": "ascii", "limit": 1 << 20}
            p = "x" * size
            yield {"kind": "seq", "spec": spec, "api": api, "datagrams": [p.encode().hex()], "valid": [sers.enc_val(p)],
                   "kinds": ["large"], "send": [], "conv": False}


# ---- generic framers ----
# file-based / compressor framers (Lean model GenericFr): adds the case kind "generic" and gives the existing cases whose
# serializer is a file toy or a zlib/bz2 wrapper a model run (see vlib/genericfr.py, docs/GENERICFR.md)
from vlib import genericfr as _genericfr  # noqa: E402

_genericfr.install(globals(), "C05")
# ---- end generic framers ----
