"""
C12 — Concurrent senders never interleave packets.

real run : N tasks (or threads) call send_packet concurrently on the REAL client objects
             aclient   AsyncTCPNetworkClient                      (send lock: the real FairLock, or asyncio.Lock)
             sclient   the server-side client of AsyncTCPNetworkServer (in-memory listener)
             endpoint  AsyncStreamEndpoint without any lock        (ResourceGuard must refuse, not interleave)
             fairlock  FairLock alone: acquire/hold/release rounds with timeouts and cancellations of waiters
             tls       AsyncTLSStreamTransport written to by N tasks at once (real OpenSSL, in-memory pipe), with
                       reader tasks (recv / recv_into) on the same transport and traffic from the peer
             tlsclient AsyncTCPNetworkClient over the TLS transport (senders + recv_packet readers)
             tlsserver the server-side client of AsyncTCPNetworkServer(ssl=...) (senders while the server reads)
             tcp/udp   blocking thread-safe clients with real threads (stress run, order not controlled): senders parked
                       mid-packet with the lock held, next to threads calling every other thread-safe method of the client
                       (is_closed, addresses, fileno, socket proxy, recv_packet(timeout=0), ...) and check-then-send idioms
           over an in-memory transport that writes PRNG-chosen partial amounts and suspends the writer for
           PRNG-chosen numbers of loop turns / virtual ticks, on a virtual-time event loop.
model run: the scheduling decisions the real run took (who ran when, how many bytes each write took) are replayed
           through the Lean machine `EasyNet.C12.step` (endriver); it must accept every step and print the same trace
           (lock state after every lock operation, bytes of every write, outcome of every call, final wire).
oracle   : the byte stream the peer sees, parsed back into packets by the real consumer, is a merge of the
           per-sender packet sequences (every packet once, contiguous, per-sender order kept); every call succeeded;
           nobody is left parked (no deadlock).  For FairLock itself: mutual exclusion and first-come-first-served.
round 5  : TLS targets with `inject`: the real ssl.SSLObject (SSLContext.sslobject_class hook) answers chosen write() calls with
           SSLWantReadError / SSLWantWriteError / a short count in the middle of the write backlog, packets of several chunks
           (serializer `chunked`, mixed buffer types), several concurrent senders; oracle only.  All async targets: the packets
           are on the wire in the order of the grants of the send lock / of the calls on the bare TLS transport (order_oracle).
round 6  : SEVERAL library objects at the same time.  `multi`: 2-4 objects of mixed kinds (the targets above + `sendpoint` =
           AsyncStreamSenderEndpoint; server-side clients also as connections of ONE server) in one virtual-time loop, one backend
           object for all or one each, each object with its own transport script and senders, some parked mid-packet for ticks
           while the others send (vlib/c12_multi.py).  `mthreads`: 2-3 blocking TCP/UDP client objects, each used by its own
           threads, one of them parked mid-packet (lock held) until a send on ANOTHER client has completed (c12_threads).
           Oracle: the unchanged one-object oracle on every object's own trace + independence (multi: every object's trace is
           exactly the one it produces alone in the loop; mthreads: nobody waits for another client's lock).  Oracle only.
round 7  : blocking TCPNetworkClient, packets of 1023 ... 3000 chunks of 1-4 bytes (around and beyond IOV_MAX = 1024, where the
           socket transport cuts its queue into sendmsg() batches) with partial writes that leave any number of buffers of a
           batch unsent: scripted (`span`: PartialSocket.sendmsg takes 1 ... 5000 bytes across the buffers) and the kernel's
           own (`kernel`: 2 KB socket buffers, slow reader, 2-4 sender threads).  Same oracle.  Oracle only.
"""
from __future__ import annotations

import asyncio
from typing import Any

from vlib import core
from vlib import c12_run as R

ID = "C12"
CLAIMED = True
TITLE = "Concurrent senders never interleave packets"
REQUIRED_THEOREMS = ["C12_contiguous", "C12_contiguous_quiescent", "C12_all_succeed", "C12_fairlock_mutex", "C12_fairlock_fifo",
                     "C12_fairlock_no_lost_wakeup", "C12_no_deadlock", "C12_tls_backlog_order"]
LEVEL_TEXT = (
    "Machine-checked proof (Lean 4) on a statement-level model of FairLock, ResourceGuard and the send_packet "
    "critical section: for every schedule of any number of senders, with a transport that writes arbitrary partial "
    "amounts and suspends at every point, the wire is a concatenation of whole packets in an order that is a merge of "
    "the per-sender sequences, no call fails, the lock is mutually exclusive, first-come-first-served and never loses "
    "a wake-up (also when waiters are cancelled); plus trace-level correspondence of that model with the real "
    "AsyncTCPNetworkClient, server-side client, AsyncStreamEndpoint, FairLock and AsyncTLSStreamTransport on generated "
    "schedules, plus a direct oracle on the byte stream seen by the peer."
)
LEVEL_NOTE = (
    "Trusted: Lean kernel; axioms propext, Quot.sound, Classical.choice only; the hand-written model is tied to the code by "
    "the sampled correspondence check; asyncio task/loop semantics enter only as 'a task runs from one await to the next "
    "atomically'. OS-thread interleavings of the blocking TCP/UDP clients are sampled by a stress run, not enumerated "
    "(partial): the proof covers the lock protocol, threading.Lock is trusted as a mutex."
)
TECHNIQUE = ("Lean 4 inductive invariants over an interleaving transition system (all schedules) + trace validation of the "
             "model against the instrumented real code + peer-side stream oracle")
TRUSTED_BASE = [
    "Lean 4.33.0 kernel; axioms allowed: propext, Classical.choice, Quot.sound",
    "hand-written model EasyNet/Model/Senders.lean (+ TlsSend.lean) tied to fair_lock.py, _utils.ResourceGuard, "
    "clients/async_tcp.py, servers/async_tcp.py, endpoints/stream.py, transports/tls.py by trace correspondence (sampled)",
    "asyncio: a task executes atomically between two awaits; Event.set() makes exactly the waiting task runnable; "
    "a cancelled waiter sees CancelledError raised from wait()",
    "harness: virtual-time loop, in-memory transport/listener, logging subclasses of FairLock / asyncio.Lock "
    "(delegate to the real methods), endriver line parser",
    "OpenSSL via ssl.MemoryBIO as an order-preserving byte pipe (TLS target); threading.Lock as a mutex (blocking clients)",
]
ASSUMPTIONS = [
    "senders are not cancelled in the middle of a transport write (the library documents the stream as inconsistent then); "
    "cancellation of senders parked in the lock IS covered",
    "blocking TCP/UDP clients: thread interleavings are sampled (stress run with a 1 microsecond switch interval, "
    "GIL-releasing partial writes, senders parked mid-packet while other threads call the other thread-safe methods), "
    "not enumerated",
]
RULE = (
    "case = target x lock kind x serializer x per-sender packet lists, start delays, gaps x transport script "
    "(bytes accepted per write, pause after each write) x cancellations of parked senders; TLS targets additionally x "
    "reader tasks on the same transport (recv / recv_into / recv_packet / the server's receiver; started before, between, "
    "after the senders; parked or woken by peer traffic cut at arbitrary ciphertext offsets) x send_all / "
    "send_all_from_iterable mixed x (round 5) scripted WANT_READ / WANT_WRITE / partial answers of SSLObject.write() at chosen "
    "write calls with multi-chunk packets (non-trivial = an injection fired); "
    "blocking clients: x auxiliary threads polling the other thread-safe methods x check-then-send idioms x send calls "
    "at which the socket parks the sender mid-packet (lock held) or answers EAGAIN x packets sent by the peer; "
    "non-trivial = at least one sender had to park in the lock / was refused by the guard while another sender was "
    "suspended inside a partially written packet (or, for fairlock, at least one waiter was queued); distinct by case digest; "
    "round 6: x 2-4 library objects of mixed kinds in one loop (own or shared backend object, connections of one server), each "
    "with its own senders / script / cancellations (non-trivial = a send_packet call was made on one object while another "
    "object had a sender suspended inside its transport); x 2-3 blocking client objects used by their own threads at the same "
    "time (non-trivial = a sender parked mid-packet saw a send on another client complete, or two objects were contended)"
)

ASYNC_TARGETS = ("aclient", "sclient", "endpoint", "fairlock", "tls", "tlsclient", "tlsserver")
TLS_TARGETS = ("tls", "tlsclient", "tlsserver")
TLS_VIA_CLIENT = ("tlsclient", "tlsserver")


# ------------------------------------------------------------------------------------------------
# real run
# ------------------------------------------------------------------------------------------------

def run_real(case: dict) -> list[str]:
    try:
        return _run_real(case)
    except core.InfraError:
        raise
    except Exception as e:      # same convention as core.evaluate_cases (shrinking calls run_real directly)
        return [f"harness-exc {type(e).__name__}: {e}"]
    except asyncio.CancelledError as e:
        # a cancellation that escapes a session: only seen when objects of a multi case leak into each other (a sender task
        # cancelled because ANOTHER object's lock lists a task of the same name as parked)
        return [f"harness-exc CancelledError: {e}"]


def _run_real(case: dict) -> list[str]:
    t = case["target"]
    if t == "aclient":
        return R.run_aclient(case)
    if t == "endpoint":
        return R.run_endpoint(case)
    if t == "fairlock":
        return R.run_fairlock(case)
    if t == "sclient":
        return R.run_sclient(case)
    if t in TLS_TARGETS:
        from vlib import c12_tls
        return c12_tls.run_tls(case)
    if t in ("tcp", "udp"):
        from vlib import c12_threads
        return c12_threads.run_threads(case)
    if t == "sendpoint":
        return R.run_endpoint(case)
    if t == "multi":
        from vlib import c12_multi
        return c12_multi.run_multi(case)
    if t == "mthreads":
        from vlib import c12_threads
        return c12_threads.run_multi_threads(case)
    raise ValueError(t)


# ------------------------------------------------------------------------------------------------
# model run
# ------------------------------------------------------------------------------------------------

def _tid(name: str) -> str | None:
    if name.startswith("s") and name[1:].isdigit():
        return name[1:]
    return None


def canonical(case: dict, real: list[str]) -> list[str]:
    """the real trace in the text the model prints: drop harness-only lines, make parking explicit"""
    out: list[str] = []
    lines = [ln for ln in real if not ln.startswith(("cancel-req", "rx", "tls.", "note "))]
    for i, ln in enumerate(lines):
        out.append(ln)
        w = ln.split()
        if w[0] == "call":
            nxt = lines[i + 1].split() if i + 1 < len(lines) else []
            if not (len(nxt) >= 2 and nxt[0] == "acq" and nxt[1] == w[1]):
                out.append(f"park {w[1]}")
    return out


def _unstar(case: dict, lines: list[str]) -> list[str]:
    # asyncio.Lock is not the anchored FairLock: its queue is compared without the "event set" marks
    if case.get("lock") == "asyncio":
        return [ln.replace("*", "") for ln in lines]
    return lines


def real_for_diff(case: dict, real: list[str]) -> list[str]:
    if case["target"] in TLS_TARGETS:
        from vlib import c12_tls
        return c12_tls.real_for_diff(case, real)
    return _unstar(case, canonical(case, real))


def ops_from_trace(case: dict, real: list[str]) -> list[str]:
    use_lock = case["target"] not in ("endpoint", "sendpoint")
    ops: list[str] = []
    lines = [ln for ln in real if not ln.startswith(("cancel-req", "rx", "tls.", "note "))]
    prev: list[str] = []
    for ln in lines:
        w = ln.split()
        t = _tid(w[1]) if len(w) > 1 else None
        k = w[0]
        if k in ("final", "wire", "sent", "call", "deadlock"):
            pass
        elif t is None:
            ops.append("foreign " + ln)
        elif k == "send":
            ops.append(f"send {t}")
        elif k == "acq":
            if not (prev and prev[0] == "call" and prev[1] == w[1]):
                ops.append(f"resume {t}")
        elif k == "cancelled":
            ops.append(f"cancel {t}")
        elif k == "xmit":
            if use_lock:
                ops.append(f"xmit {t}")
        elif k == "write":
            ops.append(f"write {t} {len(w[2]) // 2}")
        elif k == "ret":
            ops.append(f"ret {t}")
        elif k == "rel":
            if not (prev and prev[0] == "ret" and prev[1] == w[1]):
                ops.append(f"rel {t}" if case["target"] == "fairlock" else f"xmit {t}")
        else:
            ops.append("foreign " + ln)
        prev = w
    return ops


def model_input(case: dict, real: list[str]):
    t = case["target"]
    if t in TLS_TARGETS:
        from vlib import c12_tls
        return c12_tls.model_input(case, real)
    if t not in ("aclient", "sclient", "endpoint", "sendpoint", "fairlock"):
        return None             # (multi / mthreads: oracle only - every object's trace is compared with its one-object run)
    if case.get("lock") == "asyncio" and any(ln.startswith("cancelled ") for ln in real):
        # asyncio.Lock lets a newcomer pass waiters whose cancellation is pending; FairLock (the model) does not.
        # Cancellation schedules of asyncio.Lock are judged by the oracle only.
        return None
    pks: list[str] = []
    if t != "fairlock":
        for i, s in enumerate(case["senders"]):
            for h in s["packets"]:
                pks.append(f"pk {i} {core.hexs(R.expected_chunks(case['spec'], h))}")
    return f"c12 {0 if t in ('endpoint', 'sendpoint') else 1}", pks + ops_from_trace(case, real)


def model_post(case: dict, lines: list[str]) -> list[str]:
    t = case["target"]
    if t in TLS_VIA_CLIENT:
        lines = [ln for ln in lines if not ln.startswith(("send ", "sent "))]
    if t in ("endpoint", "sendpoint"):
        lines = [ln for ln in lines if not ln.startswith("final ")]
    if t == "fairlock":
        lines = [ln for ln in lines if not ln.startswith("wire ")]
    return _unstar(case, lines)


# ------------------------------------------------------------------------------------------------
# oracle
# ------------------------------------------------------------------------------------------------

def is_merge(seq: list[str], parts: list[list[str]]) -> bool:
    """is `seq` an interleaving of the lists in `parts` that keeps each list's order and uses every element once?"""
    if len(seq) != sum(len(p) for p in parts):
        return False
    seen: set[tuple[int, ...]] = set()
    stack = [tuple(0 for _ in parts)]
    while stack:
        pos = stack.pop()
        if pos in seen:
            continue
        seen.add(pos)
        k = sum(pos)
        if k == len(seq):
            return True
        for i, p in enumerate(parts):
            if pos[i] < len(p) and p[pos[i]] == seq[k]:
                stack.append(pos[:i] + (pos[i] + 1,) + pos[i + 1:])
    return False


def lock_oracle(real: list[str], prefix: str = "", fifo: bool = True) -> str | None:
    """mutual exclusion and first-come-first-served, read off the acq/rel/call events alone"""
    holder: str | None = None
    arrival: dict[str, int] = {}
    n = 0
    last_granted = -1
    for ln in real:
        if prefix:
            if not ln.startswith(prefix):
                continue
            ln = ln[len(prefix):]
        w = ln.split()
        if w[0] == "call":
            arrival[w[1]] = n
            n += 1
        elif w[0] == "acq":
            if holder is not None:
                return f"lock granted to {w[1]} while {holder} holds it"
            holder = w[1]
            a = arrival.get(w[1], -1)
            if fifo and a < last_granted:
                return f"lock granted to {w[1]} (arrival {a}) after a later arrival ({last_granted})"
            last_granted = max(last_granted, a)
        elif w[0] == "rel":
            if len(w) > 2 and w[2] == "error":
                return f"release by {w[1]} raised RuntimeError"
            if holder != w[1]:
                return f"{w[1]} released the lock held by {holder}"
            holder = None
    return None


def outcomes(real: list[str]) -> dict[tuple[str, int], str]:
    res = {}
    for ln in real:
        w = ln.split()
        if w[0] == "sent":
            res[(w[1], int(w[2]))] = w[3]
    return res


def multi_oracle(case: dict, real: list[str]) -> str | None:
    """several objects in one loop: the one-object oracle on every object's own trace + independence (every object's trace
    is the one it produces when it is alone in the loop)"""
    from vlib import c12_multi

    per, rest = c12_multi.split(real)
    objects = case["objects"]
    for k, sub in enumerate(objects):
        try:
            why = oracle(sub, per.get(k, []))
        except Exception as e:      # a trace that is not one of this object alone (events of another object's tasks in it)
            why = f"the trace of the object cannot be read as the trace of one object ({type(e).__name__}: {e})"
        if why:
            others = ", ".join(f"o{j} {o['target']}" for j, o in enumerate(objects) if j != k)
            return f"object o{k} ({c12_multi.describe(sub)}; next to {others or 'nothing'}): {why}"
    for ln in rest:
        if ln.startswith("alone ") and not ln.endswith(" same"):
            k = int(ln.split()[1][1:])
            return (f"object o{k} ({c12_multi.describe(objects[k])}) does not behave next to the other objects of the loop as it "
                    f"does alone (same inputs, same transport script): {ln.split(None, 2)[2]}")
    return None


def oracle(case: dict, real: list[str]) -> str | None:
    t = case["target"]
    if real and real[0].startswith("harness-exc"):
        return real[0]
    if t == "multi":
        return multi_oracle(case, real)
    if t == "mthreads":
        from vlib import c12_threads
        return c12_threads.multi_oracle(case, real)
    if "deadlock" in real:
        return "deadlock: the loop ran out of work while senders were still parked"
    if t in ("tcp", "udp"):
        from vlib import c12_threads
        return c12_threads.oracle(case, real)
    if t == "fairlock":
        why = lock_oracle(real)
        if why:
            return why
        out = outcomes(real)
        for i, s in enumerate(case["senders"]):
            for j, r in enumerate(s["rounds"]):
                o = out.get((f"s{i}", j))
                if o is None:
                    return f"round {j} of s{i} never finished"
                if o != "ok" and not (o == "cancelled" and (r[1] or case.get("cancels"))):
                    return f"round {j} of s{i}: {o}"
        return None
    perr = [ln for ln in real if ln.startswith("peer-error")]
    if perr:
        il = [ln for ln in real if ln.startswith("note interleaved-flush")]
        how = (f"the lower transport wrote a piece of the blob flushed by {il[0].split()[3]} inside the blob flushed by "
               f"{il[0].split()[2]}") if il else "ciphertext of two flushes interleaved or reordered"
        return f"the TLS peer cannot decrypt the stream ({perr[0]}): {how}"
    out = outcomes(real)
    parts: list[list[str]] = []
    for i, s in enumerate(case["senders"]):
        mine: list[str] = []
        for j, h in enumerate(s["packets"]):
            o = out.get((f"s{i}", j))
            if o is None:
                return f"send_packet call {j} of s{i} never returned"
            if o == "ok":
                mine.append(h or "-")
            elif o == "cancelled" and case.get("cancels"):
                pass
            elif o == "busy" and t in ("endpoint", "sendpoint"):
                pass
            else:
                return f"send_packet call {j} of s{i} failed: {o}"
        parts.append(mine)
    bad = [ln for ln in real if ln.startswith(("rx-err", "rx-left"))]
    if bad:
        return f"the peer cannot parse the stream: {bad[0]}"
    rx = [ln.split()[1] for ln in real if ln.startswith("rx ")]
    if not is_merge(rx, parts):
        return f"peer received {rx[:8]}, not a merge of the per-sender sequences {parts}"
    why = order_oracle(case, real, out, rx)
    if why:
        return why
    if t in ("aclient", "sclient", "tlsclient", "tlsserver"):
        why = lock_oracle([ln for ln in real if not ln.startswith(("tls.", "tlsrecv."))], fifo=False)
        if why:
            return why
    if t in TLS_TARGETS:
        why = lock_oracle(real, prefix="tls.", fifo=False)
        if why:
            return "TLS send lock: " + why
        return reader_oracle(case, real)
    return None


def order_oracle(case: dict, real: list[str], out: dict, rx: list[str]) -> str | None:
    """the packets appear on the wire in the order in which the senders got hold of the stream: the order of the grants of the
    send lock (clients, server-side client), resp. the order of the calls on the bare TLS transport (the backlog is extended
    synchronously by the call).  Not a model run: read off the trace events alone."""
    t = case["target"]
    if t in ("endpoint", "sendpoint") or t not in ASYNC_TARGETS or t == "fairlock":
        return None
    ok_packets = {f"s{i}": [h or "-" for j, h in enumerate(s["packets"]) if out.get((f"s{i}", j)) == "ok"]
                  for i, s in enumerate(case["senders"])}
    taken = {name: 0 for name in ok_packets}
    exp: list[str] = []
    for ln in real:
        w = ln.split()
        if t == "tls":
            if w[0] != "send" or _tid(w[1]) is None or out.get((w[1], int(w[2]))) != "ok":
                continue
        elif w[0] != "acq" or _tid(w[1]) is None:
            continue
        name = w[1]
        if name not in taken:
            return f"the stream of this object was taken by {name}, which is not one of its {len(taken)} senders"
        if taken[name] < len(ok_packets[name]):
            exp.append(ok_packets[name][taken[name]])
            taken[name] += 1
    if len(exp) == len(rx) and exp != rx:
        how = "the calls were made" if t == "tls" else "the send lock was granted"
        return f"peer received {rx[:8]}: not the order in which {how} ({exp[:8]})"
    return None


def reader_oracle(case: dict, real: list[str]) -> str | None:
    """the tasks reading on the same TLS transport while the senders run: none of them fails, every one of them comes
    back (with EOF once the peer has closed), and together they get what the peer sent, in order (a reader is not a
    sender, but 'every call succeeds' would be void if sending broke the receive side of the same transport)"""
    if not any(ln.startswith(("rd.", "peer.")) for ln in real):
        return None
    closed = False
    open_calls: dict[str, str] = {}
    got: list[str] = []
    sent: list[str] = []
    via = case["target"] in TLS_VIA_CLIENT
    for ln in real:
        w = ln.split()
        if w[0] == "peer.close":
            closed = True
        elif w[0] == "peer.msg":
            sent.append(w[1] if len(w) > 1 else "")
        elif w[0] == "rd.call":
            open_calls[w[1]] = w[2]
        elif w[0] == "rd.ret":
            open_calls.pop(w[1], None)
            v = w[3]
            if v == "eof" or (closed and (v.startswith("conn-") or v == "closed")):
                if not closed:
                    return f"reader {w[1]} got EOF before the peer closed"
            elif v == "-" or all(c in "0123456789abcdef" for c in v):
                got.append(v)
            else:
                return f"read {w[2]} of reader {w[1]} failed: {v}"
    if open_calls:
        return f"reader(s) {sorted(open_calls)} never came back from their read although the peer closed"
    if via:
        exp = [ln.split()[1] for ln in _peer_packets(case, sent)]
        if got != exp[:len(got)]:
            return f"the readers received {got[:6]}, the peer sent {exp[:6]}"
    else:
        a, b = "".join(got).replace("-", ""), "".join(sent)
        if not b.startswith(a):
            return f"the readers received {a[:60]}, the peer sent {b[:60]}"
    return None


def _peer_packets(case: dict, sent_hex: list[str]) -> list[str]:
    return [ln for ln in R.parse_wire(case["spec"], bytes.fromhex("".join(sent_hex))) if ln.startswith("rx ")]


# ------------------------------------------------------------------------------------------------
# coverage classes, shrinking, known findings
# ------------------------------------------------------------------------------------------------

def nontrivial(case: dict, real: list[str]) -> str | None:
    t = case["target"]
    if t == "multi":
        # a send_packet call was made on one object while another object had a sender suspended inside its transport
        n = next((int(ln.split()[2]) for ln in real if ln.startswith("note overlap ")), 0)
        if n <= 0:
            return None
        kinds = sorted({o["target"] for o in case["objects"]})
        grouped = any(o.get("server") is not None for o in case["objects"])
        if len(kinds) == 1:
            what = f"{len(case['objects'])}x{kinds[0]}"
        else:
            what = ("mixed" + ("+tls" if any(k in TLS_TARGETS for k in kinds) else "")
                    + ("+srv" if any(k in ("sclient", "tlsserver") for k in kinds) else "")
                    + ("+bare" if any(k in ("endpoint", "sendpoint") for k in kinds) else ""))
        return ("multi/" + ("shared-backend" if case.get("shared_backend") else "own-backends") + "/" + what
                + ("/one-server" if grouped else ""))
    if t == "mthreads":
        from vlib import c12_threads
        return c12_threads.multi_nontrivial(case, real)
    if t == "tcp" and case.get("wide"):
        n = case["spec"].get("n", 1)
        if "note partial-batch" not in real:
            return None
        return ("tcp/threads/wide-" + ("kernel" if case.get("kernel") else "span") + "/"
                + ("beyond-iov-max" if n + 1 > 1024 else "within-iov-max") + ("+contended" if "note contended" in real else ""))
    if t in ("tcp", "udp"):
        contended = "note contended" in real
        window = "note aux-window" in real      # an auxiliary call was attempted while a sender was parked mid-packet
        if not (contended or window):
            return None
        with_aux = bool(case.get("aux")) or any(s.get("idioms") for s in case["senders"])
        return f"{t}/threads" + ("+aux" if with_aux else "") + ("-window" if window else "")
    if t in TLS_TARGETS:
        from vlib import c12_tls
        return c12_tls.nontrivial(case, real)
    canon = canonical(case, real)
    parked = any(ln.startswith("park ") for ln in canon)
    cancelled = any(ln.startswith("cancelled ") for ln in canon)
    busy = any(ln.startswith("sent ") and ln.endswith(" busy") for ln in canon)
    # another sender acted while somebody was inside a partially written packet
    mid = False
    inside: str | None = None
    for ln in canon:
        w = ln.split()
        if w[0] == "write":
            inside = w[1]
        elif w[0] == "ret":
            inside = None
        elif inside is not None and w[0] in ("send", "call") and w[1] != inside:
            mid = True
    # a waiter cancelled after its event had been set (release and cancellation race): the wake-up must be passed on
    woken = False
    last_w = ""
    for ln in canon:
        if " W=[" in ln:
            w = ln.split()
            if w[0] == "cancelled" and f"{w[1]}*" in last_w.split("W=[")[-1]:
                woken = True
            last_w = ln
    if t == "fairlock":
        if not parked:
            return None
        return f"fairlock/{case.get('lock', 'fair')}/" + ("cancel-woken-head" if woken else ("cancel" if cancelled else "queue"))
    if t in ("endpoint", "sendpoint"):
        return f"{t}/busy" + ("-mid" if mid else "") if busy else None
    if not parked:
        return None
    return f"{t}/{case.get('lock', 'fair')}/" + ("cancel-woken-head" if woken else
                                                 ("cancel" if cancelled else ("park-mid-write" if mid else "park")))


def shrink_threads(case: dict):
    """thread cases are sampled: every candidate asks for up to 4 samples (`tries`), so that a smaller case is kept only if
    it still fails often enough for the replay to fail too"""
    base = {**case, "tries": 4}
    ss = case["senders"]
    aux = case.get("aux", [])
    for i in range(len(aux)):
        yield {**base, "aux": aux[:i] + aux[i + 1:]}
    if len(ss) > 1:
        for i in range(len(ss)):
            yield {**base, "senders": ss[:i] + ss[i + 1:]}
    for i, s in enumerate(ss):
        if len(s["packets"]) > 1:
            for j in range(len(s["packets"])):
                s2 = {k: (v[:j] + v[j + 1:] if k in ("packets", "timeouts", "idioms") else v) for k, v in s.items()}
                yield {**base, "senders": ss[:i] + [s2] + ss[i + 1:]}
    for i, a in enumerate(aux):
        if len(a["ops"]) > 1:
            for j in range(len(a["ops"])):
                yield {**base, "aux": aux[:i] + [{**a, "ops": a["ops"][:j] + a["ops"][j + 1:]}] + aux[i + 1:]}
    for key in ("peer_packets", "eagain"):
        if case.get(key):
            yield {k: v for k, v in base.items() if k != key}
    for i, s in enumerate(ss):
        for key in ("timeouts", "idioms"):
            if s.get(key):
                yield {**base, "senders": ss[:i] + [{k: v for k, v in s.items() if k != key}] + ss[i + 1:]}
    if len(set(case.get("sizes") or [1])) > 1:
        yield {**base, "sizes": [1]}


def shrink_multi(case: dict):
    objs = case["objects"]
    if len(objs) > 1:
        for i in range(len(objs)):
            yield {**case, "objects": objs[:i] + objs[i + 1:]}
    if case.get("shared_backend"):
        yield {**case, "shared_backend": False}
    for i, o in enumerate(objs):
        for k2 in ("pre", "start", "server"):
            if o.get(k2):
                yield {**case, "objects": objs[:i] + [{k: v for k, v in o.items() if k != k2}] + objs[i + 1:]}
    for i, o in enumerate(objs):
        for cand in (shrink_threads(o) if case["target"] == "mthreads" else shrink(o)):
            if case["target"] == "mthreads":
                cand = {k: v for k, v in cand.items() if k != "tries"}
            yield {**case, "objects": objs[:i] + [cand] + objs[i + 1:]}


def shrink(case: dict):
    if case["target"] in ("multi", "mthreads"):
        yield from shrink_multi(case)
        return
    if case["target"] in ("tcp", "udp"):
        yield from shrink_threads(case)
        return
    ss = case["senders"]
    key = "rounds" if case["target"] == "fairlock" else "packets"
    if len(ss) > 2:
        for i in range(len(ss)):
            c = {**case, "senders": ss[:i] + ss[i + 1:]}
            c.pop("start_order", None)
            c["cancels"] = [x for x in case.get("cancels", []) if x[0] < len(ss) - 1]
            yield c
    for i, s in enumerate(ss):
        if len(s[key]) > 1:
            for j in range(len(s[key])):
                yield {**case, "senders": ss[:i] + [{**s, key: s[key][:j] + s[key][j + 1:]}] + ss[i + 1:]}
    if case.get("cancels"):
        yield {**case, "cancels": case["cancels"][:-1]}
    for key2 in ("readers", "peer_msgs"):
        xs = case.get(key2, [])
        for i in range(len(xs)):
            yield {**case, key2: xs[:i] + xs[i + 1:]}
    for i, r in enumerate(case.get("readers", [])):
        for k2, v2 in (("pre", 0), ("delay", 0), ("gap", 0), ("count", 0), ("bufsize", 65536)):
            if r.get(k2, v2) != v2:
                yield {**case, "readers": case["readers"][:i] + [{**r, k2: v2}] + case["readers"][i + 1:]}
    for i, m in enumerate(case.get("peer_msgs", [])):
        if m.get("cuts"):
            yield {**case, "peer_msgs": case["peer_msgs"][:i] + [{**m, "cuts": m["cuts"][:-1]}] + case["peer_msgs"][i + 1:]}
        if len(m.get("packets", [])) > 1:
            yield {**case, "peer_msgs": case["peer_msgs"][:i] + [{**m, "packets": m["packets"][:1]}] + case["peer_msgs"][i + 1:]}
    if case.get("mode") == "mixed":
        yield {**case, "mode": "iter"}
    for k2 in ("buffered", "per_gen", "oc_pause"):
        if case.get(k2):
            yield {**case, k2: 0}
    sc = case.get("script", [])
    if sc:
        yield {**case, "script": sc[: len(sc) // 2]}
        yield {**case, "script": sc[:-1]}
    for i, s in enumerate(ss):
        if s.get("delay"):
            yield {**case, "senders": ss[:i] + [{**s, "delay": 0}] + ss[i + 1:]}
        if any(s.get("gaps", [])):
            yield {**case, "senders": ss[:i] + [{**s, "gaps": []}] + ss[i + 1:]}


def known_key(case: dict, real: list[str], why: str) -> str:
    kind = "deadlock" if "deadlock" in why else (
        "interleave" if "merge" in why or "parse" in why or "decrypt" in why else
        ("reader" if why.startswith(("reader", "read ", "the readers", "the receive calls")) else
         ("call-failed" if "failed" in why else "lock")))
    target = case["target"]
    if target in ("multi", "mthreads") and why.startswith("object o"):
        k = why.split()[1][1:]
        if k.isdigit() and int(k) < len(case["objects"]):
            target += ":" + case["objects"][int(k)]["target"]
            if "does not behave" in why:
                kind = "independence"
    return f"target={target},lock={case.get('lock', '-')},kind={kind}"


# ------------------------------------------------------------------------------------------------
# cases
# ------------------------------------------------------------------------------------------------

LF = {"k": "autosep", "sep": "0a", "limit": 4096, "check": True}


def corpus() -> list[dict]:
    cases: list[dict] = []
    for lock in ("fair", "asyncio"):
        # three senders, 1-byte writes each followed by a suspension: every interleaving point is offered
        cases.append({"target": "aclient", "lock": lock, "spec": LF, "mode": "iter",
                      "senders": [{"delay": 0, "packets": ["6161", "6262"]}, {"delay": 0, "packets": ["63636363"]},
                                  {"delay": 1, "packets": ["64", "65"]}],
                      "script": [[1, 1]] * 30, "cancels": []})
        # the head waiter's cancellation is pending when release() sets its event: the wake-up must be passed on to s2
        cases.append({"target": "fairlock", "lock": lock,
                      "senders": [{"delay": 0, "rounds": [[1, 0, 0]]}, {"delay": 0, "rounds": [[0, 0, 0]]},
                                  {"delay": 0, "rounds": [[0, 0, 0]]}], "cancels": [[1, 0]]})
        # timeouts and cancellations of queued waiters while the lock is held
        cases.append({"target": "fairlock", "lock": lock,
                      "senders": [{"delay": 0, "rounds": [[-1, 0, 0]]}, {"delay": 0, "rounds": [[0, 1, 0], [0, 0, 0]]},
                                  {"delay": 0, "rounds": [[1, 0, 0]]}], "cancels": [[1, 1]]})
        cases.append({"target": "fairlock", "lock": lock,
                      "senders": [{"delay": 0, "rounds": [[2, 0, 0], [1, 0, 0]]}, {"delay": 0, "rounds": [[1, 0, 0]]},
                                  {"delay": 0, "rounds": [[0, 0, 1], [0, 0, 0]]}], "cancels": [[2, 0], [1, 0]]})
    cases.append({"target": "sclient", "lock": "fair", "spec": LF, "mode": "iter",
                  "senders": [{"delay": 0, "packets": ["6161", "6262"]}, {"delay": 0, "packets": ["63636363"]},
                              {"delay": 1, "packets": ["64"]}],
                  "script": [[1, 1], [1, 2], [5, -2], [2, 1]], "cancels": [[1, 0]]})
    # TLS: s1 flushes the ciphertext of s1, s2 and of s0's second call in one blob; s2 and s0 find nothing left
    cases.append({"target": "tls", "lock": "fair", "spec": LF, "mode": "iter",
                  "senders": [{"delay": 0, "packets": ["6161", "6262"]}, {"delay": 0, "packets": ["63636363"]},
                              {"delay": 1, "packets": ["64"]}],
                  "script": [[10, 1], [10, 2], [50, -2], [20, 1]], "cancels": []})
    cases.append({"target": "endpoint", "spec": LF, "mode": "iter",
                  "senders": [{"delay": 0, "packets": ["6161", "6262"]}, {"delay": 0, "packets": ["6363"]}],
                  "script": [[1, 2], [1, 1], [1, 1]], "cancels": []})
    cases += inject_corpus()
    # round 7: blocking client, one / two senders, packets of 1023 ... 3000 chunks of 1-4 bytes (IOV_MAX = 1024: the transport
    # cuts the queue into sendmsg() batches), scripted partial writes that stop inside a batch (1 byte ... several hundred
    # buffers at once), and the kernel's own partial writes (small socket buffers, slow reader, three senders)
    import random as _random
    for n in WIDE_N:
        wr = _random.Random(n)
        spec = {"k": "chunked", "n": n, "views": "b"}
        cases.append({"target": "tcp", "spec": spec, "wide": True, "span": True, "sizes": [700, 3, 1500, 1, 257, 64, 5000],
                      "senders": [{"packets": [wide_packet(wr, f"{i}.{j}.", n) for j in range(2)]} for i in range(1 + n % 2)]})
    for n in (1025, 2049, 3000):
        wr = _random.Random(-n)
        cases.append({"target": "tcp", "spec": {"k": "chunked", "n": n, "views": "bam"}, "wide": True, "kernel": True, "sizes": [1],
                      "peer_read": 1024, "peer_nap_ms": 0.5,
                      "senders": [{"packets": [wide_packet(wr, f"{i}.{j}.", n) for j in range(2)]} for i in range(3)]})
    return cases


PAUSES = [0, 1, 1, 1, 2, 3, -1, -1, -2]


def gen_payload(rng, spec: dict, i: int, j: int) -> str:
    if spec["k"] == "fixed":
        n = spec["size"]
        base = (f"{i}{j}" + "x" * n)[:n]
        return base.encode().hex()
    mode = rng.random()
    if mode < 0.2:
        return b"same".hex()                   # identical packets from different senders
    if mode < 0.3:
        return f"{i}".encode().hex()              # one-byte payload
    n = rng.randint(0, 5)
    body = f"{i}.{j}." + "".join(rng.choice("abcxyz") for _ in range(n))
    return body.encode().hex()


def gen_spec(rng) -> dict:
    r = rng.random()
    if r < 0.45:
        return LF
    if r < 0.6:
        return {"k": "autosep", "sep": "0d0a", "limit": 4096, "check": True}
    if r < 0.7:
        return {"k": "line", "newline": "LF", "encoding": "ascii", "limit": 4096, "keep_end": False}
    if r < 0.85:
        return {"k": "fixed", "size": rng.choice([1, 3, 6])}
    return {"k": "zlib", "inner": LF}


def gen_script(rng, n: int) -> list[list[int]]:
    style = rng.random()
    if style < 0.25:
        return [[1, rng.choice([1, 1, 2, -1])] for _ in range(n)]
    if style < 0.35:
        return [[1 << 20, rng.choice(PAUSES)] for _ in range(n)]      # whole packets, suspensions only
    return [[rng.choice([1, 1, 2, 3, 5, 8, 1 << 20]), rng.choice(PAUSES)] for _ in range(n)]


def gen_async_case(rng, target: str) -> dict:
    n = rng.randint(2, 5)
    if target == "fairlock":
        senders = [{"delay": rng.choice([0, 0, 0, 1, 2]),
                    "rounds": [[rng.choice(PAUSES), rng.choice([0, 0, 0, 1, 2, 3]), rng.choice([0, 0, 1, -1])]
                               for _ in range(rng.randint(1, 3))]} for _ in range(n)]
        case = {"target": "fairlock", "lock": rng.choice(["fair", "fair", "asyncio"]), "senders": senders, "cancels": []}
    else:
        spec = gen_spec(rng)
        senders = []
        for i in range(n):
            k = rng.randint(1, 3)
            pk = [gen_payload(rng, spec, i, j) for j in range(k)]
            senders.append({"delay": rng.choice([0, 0, 0, 1, 2, 3]), "packets": pk,
                            "gaps": [rng.choice([0, 0, 0, 1, -1]) for _ in range(k)]})
        case = {"target": target, "lock": rng.choice(["fair", "fair", "asyncio"]), "spec": spec,
                "mode": rng.choice(["iter", "iter", "join"]), "senders": senders,
                "script": gen_script(rng, rng.randint(0, 40)), "cancels": [],
                "connect_first": rng.random() < 0.8, "connect_pause": rng.choice([0, 1, 2, -1])}
    order = list(range(n))
    rng.shuffle(order)
    case["start_order"] = order
    if target in TLS_TARGETS:
        # ciphertext blobs are tens of bytes: larger pieces, still many suspensions
        case["script"] = [[rng.choice([1, 3, 7, 20, 23, 100, 1 << 20]), rng.choice(PAUSES)] for _ in range(rng.randint(0, 40))]
        add_tls_traffic(rng, case)
    if target not in ("endpoint", "tls") and rng.random() < 0.35:
        case["cancels"] = [[rng.randrange(n), rng.choice([0, 0, 1, 1, 2, 3, 4, 6])] for _ in range(rng.randint(1, 3))]
    return case


def gen_inject_case(rng, target: str) -> dict:
    """round 5: a TLS case in which the engine refuses application-data writes in the middle of the backlog (see c12_tls.Injection):
    packets of several chunks (`chunked` serializer: 2-6 pieces + separator, buffer types mixed), 2-5 concurrent senders,
    WANT_READ / WANT_WRITE / partial answers at PRNG-chosen write() calls — single ones, the same chunk refused several times in a
    row, several chunks of one packet, chunks of different senders.  WANT_READ only without concurrent readers (a reader parked on
    the lower transport holds the receive lock the sender then needs: see docs/C12.md, observations)."""
    case = gen_async_case(rng, target)
    n = rng.randint(1, 5)
    spec = {"k": "chunked", "n": n, "views": "".join(rng.choice("bbamH") for _ in range(rng.randint(1, 4)))}
    case["spec"] = spec
    nwrites = 0
    for i, s_ in enumerate(case["senders"]):
        s_["packets"] = [(f"{i}.{j}." + "".join(rng.choice("abcxyz") for _ in range(rng.randint(0, 40)))).encode().hex()
                         for j in range(len(s_["packets"]))]
        nwrites += len(s_["packets"]) * (n + 1)
    if target == "tls":
        case["mode"] = rng.choice(["iter", "iter", "iter", "mixed"])
        if case["mode"] == "mixed":
            for s_ in case["senders"]:
                s_["modes"] = [rng.choice(["iter", "iter", "join"]) for _ in s_["packets"]]
    for key in ("readers", "peer_msgs"):
        case.pop(key, None)
    case["buffered"] = False
    case["cancels"] = []
    readers = target == "tlsserver" or rng.random() < 0.3
    kinds = ["wantw", "wantw", "part"] if readers else ["wantr", "wantr", "wantw", "wantw", "part"]
    plan: dict[int, str] = {}
    for _ in range(rng.choice([1, 1, 2, 2, 3, 5])):
        k = rng.randrange(nwrites + len(plan) + 1)
        for _r in range(rng.choice([1, 1, 1, 2, 3])):         # the same chunk refused several times in a row
            what = rng.choice(kinds)
            plan[k] = what if what != "part" else f"part:{rng.choice([1, 1, 2, 3, 7])}"
            k += 1
    case["inject"] = sorted([k, v] for k, v in plan.items())
    case["kick"] = b"k".hex()
    if readers and target != "tlsserver":
        case["readers"] = [{"kind": rng.choice(["recv", "recv_into"]), "first": rng.random() < 0.5, "delay": rng.choice([0, 0, 1, 2]),
                            "pre": rng.choice([0, 1, 3]), "bufsize": rng.choice([1, 16, 65536]), "count": rng.choice([0, 0, 1]),
                            "gap": rng.choice([0, 1])}]
    if readers and rng.random() < 0.6:
        case["peer_msgs"] = [{"at": rng.choice([0, 1, 2]), "pre": rng.choice([0, 1, 3]), "packets": [f"p.{m}".encode().hex()],
                              "cuts": [rng.choice([1, 5, 22, 40]) for _ in range(rng.randint(0, 3))], "gap": rng.choice([0, 1, -1])}
                             for m in range(rng.randint(1, 2))]
    return case


def inject_corpus() -> list[dict]:
    """directed sweep: 3 senders x 2 packets of 4 chunks (+ separator) through send_all_from_iterable, the engine refusing the k-th
    write() for EVERY k (WANT_READ, WANT_WRITE, twice in a row, partial), for the bare transport; a coarser sweep through
    AsyncTCPNetworkClient(ssl=...) and the server-side client"""
    out: list[dict] = []
    spec = {"k": "chunked", "n": 4, "views": "bamH"}
    senders = [{"delay": 0, "packets": [(f"{i}.{j}." + chr(97 + 2 * i + j) * (17 + 3 * i + j)).encode().hex() for j in range(2)]}
               for i in range(3)]
    nwrites = 3 * 2 * 5
    base = {"lock": "fair", "spec": spec, "mode": "iter", "senders": senders, "cancels": [], "kick": b"k".hex(), "buffered": False}
    for script in ([[10, 1], [10, 2], [50, -2], [20, 1]], []):
        for k in range(nwrites + 2):
            for plan in ([[k, "wantr"]], [[k, "wantw"]], [[k, "wantr"], [k + 1, "wantw"], [k + 2, "wantr"]], [[k, "part:3"], [k + 1, "wantw"]]):
                if script == [] and len(plan) > 1:
                    continue
                out.append({**base, "target": "tls", "script": script, "inject": plan})
    for k in range(0, nwrites + 2, 2):
        out.append({**base, "target": "tlsclient", "script": [[7, 1], [100, 2]], "inject": [[k, "wantr"], [k + 3, "wantw"]]})
        out.append({**base, "target": "tlsserver", "script": [[7, 1], [100, 2]], "inject": [[k, "wantw"], [k + 1, "wantw"], [k + 4, "part:2"]],
                    "per_gen": 0, "oc_pause": 0})
    return out


def add_tls_traffic(rng, case: dict) -> None:
    """readers on the same TLS transport + traffic from the peer (see c12_tls): a quarter of the `tls` / `tlsclient`
    cases stay sender-only"""
    target, spec = case["target"], case["spec"]
    if target == "tls" and rng.random() < 0.3:
        case["mode"] = "mixed"
        for s in case["senders"]:
            s["modes"] = [rng.choice(["iter", "join"]) for _ in s["packets"]]
    if target != "tlsserver" and rng.random() < 0.25:
        return
    if target == "tlsserver":
        case["buffered"] = rng.random() < 0.5
        case["per_gen"] = rng.choice([0, 0, 1, 2])
        case["oc_pause"] = rng.choice([0, 0, 1, 2, -1])
    else:
        case["readers"] = [{"kind": rng.choice(["recv", "recv_into"]), "first": rng.random() < 0.5,
                            "delay": rng.choice([0, 0, 0, 0, 1, 1, 2, 3, 5]), "pre": rng.choice([0, 0, 1, 2, 3, 4, 6]),
                            "bufsize": rng.choice([1, 3, 16, 1024, 65536]), "count": rng.choice([0, 0, 0, 1, 2]),
                            "gap": rng.choice([0, 0, 1, 2, -1])} for _ in range(rng.choice([1, 1, 1, 2, 3]))]
    msgs = []
    for m in range(rng.choice([0, 1, 1, 2, 3, 4])):
        pk = [gen_payload(rng, spec, 9, 10 * m + j) for j in range(rng.randint(1, 2))]
        msgs.append({"at": rng.choice([0, 0, 1, 1, 2, 3, 4, 6]), "pre": rng.choice([0, 0, 1, 2, 3, 5]), "packets": pk,
                     "cuts": [rng.choice([1, 2, 5, 5, 10, 21, 22, 23, 40]) for _ in range(rng.randint(0, 4))],
                     "gap": rng.choice([0, 1, 1, 2, 3, -1])})
    msgs.sort(key=lambda m: m["at"])
    if msgs:
        case["peer_msgs"] = msgs


MULTI_KINDS = ["aclient", "aclient", "aclient", "aclient", "sclient", "sclient", "sclient", "endpoint", "sendpoint", "fairlock",
               "tlsclient", "tlsserver", "tls"]


def gen_multi_case(rng) -> dict:
    """round 6: 2-4 library objects of mixed kinds in ONE loop, each with its own transport script, senders (2-3), start delays,
    cancellations of parked senders; a third of the cases are homogeneous (N clients / N endpoints / N server-side clients: a
    client pool, a proxy, one server with several connections), server-side clients are connections of the same server in half
    of the cases where two of them have the same serializer; one backend object for all the objects in 60 % of the cases.
    At least one object has a transport that keeps its sender suspended for virtual ticks (the others run their whole session
    meanwhile) or for loop turns."""
    n = rng.choice([2, 2, 2, 3, 3, 4])
    if rng.random() < 0.35:
        kinds = [rng.choice(["aclient", "aclient", "sclient", "endpoint", "sendpoint", "tlsclient", "tlsserver", "fairlock"])] * n
    else:
        kinds = [rng.choice(MULTI_KINDS) for _ in range(n)]
    objects = []
    shared_spec = gen_spec(rng) if rng.random() < 0.5 else None
    for k, kind in enumerate(kinds):
        sub = gen_async_case(rng, "endpoint" if kind == "sendpoint" else kind)
        sub["target"] = kind
        ss = sub["senders"][:rng.choice([2, 2, 3])]
        sub["senders"] = ss
        sub.pop("start_order", None)
        if rng.random() < 0.5:
            order = list(range(len(ss)))
            rng.shuffle(order)
            sub["start_order"] = order
        sub["cancels"] = [c for c in sub.get("cancels", []) if c[0] < len(ss)]
        if kind != "fairlock":
            # packets that name their object: a byte that reaches another object's wire is seen by that object's parser
            if kind == "sclient" and shared_spec is not None:
                sub["spec"] = shared_spec
                for i, s_ in enumerate(ss):
                    s_["packets"] = [gen_payload(rng, shared_spec, i, j) for j in range(len(s_["packets"]))]
            spec = sub["spec"]
            for s_ in ss:
                if spec["k"] == "fixed":
                    s_["packets"] = [(f"{k}" + bytes.fromhex(h).decode("ascii"))[:spec["size"]].encode().hex() for h in s_["packets"]]
                else:
                    s_["packets"] = [h if rng.random() < 0.3 else (f"o{k}." + bytes.fromhex(h).decode("ascii")).encode().hex()
                                     for h in s_["packets"]]
        sub["pre"] = rng.choice([0, 0, 0, 1, 2, 5])
        if rng.random() < 0.25:
            sub["start"] = rng.choice([1, 2, 4, 7])      # built while the others are in the middle of their run / after they closed
        objects.append(sub)
    # somebody must stay inside a packet for a while: lengthen one script with tick-long suspensions after 1-3 byte writes
    holder = rng.randrange(n)
    if objects[holder]["target"] != "fairlock":
        big = objects[holder]["target"] in TLS_TARGETS
        objects[holder]["script"] = ([[rng.choice([7, 20, 23]) if big else rng.choice([1, 2, 3]), rng.choice([-1, -1, -2, -3, 2, 4])]
                                      for _ in range(rng.randint(1, 4))] + objects[holder]["script"])
    # connections of one server
    sc = [k for k, o in enumerate(objects) if o["target"] == "sclient"]
    if len(sc) >= 2 and rng.random() < 0.6:
        by_spec: dict[str, list[int]] = {}
        for k in sc:
            by_spec.setdefault(repr(sorted(objects[k]["spec"].items(), key=str)), []).append(k)
        for g, ks in enumerate(by_spec.values()):
            if len(ks) >= 2:
                for k in ks:
                    objects[k]["server"] = g
    return {"target": "multi", "shared_backend": rng.random() < 0.6, "objects": objects}


def gen_thread_case(rng, target: str) -> dict:
    n = rng.randint(2, 5)
    spec = LF if target == "udp" or rng.random() < 0.7 else {"k": "fixed", "size": 6}
    senders = []
    for i in range(n):
        k = rng.randint(2, 5)
        if spec["k"] == "fixed":
            pk = [f"{i}{j:02d}xyz"[:6].encode().hex() for j in range(k)]
        else:
            pk = [(f"{i}.{j}." + "".join(rng.choice("abcxyz") for _ in range(rng.randint(0, 12)))).encode().hex()
                  for j in range(k)]
        senders.append({"packets": pk})
    case = {"target": target, "spec": spec, "senders": senders, "sizes": [rng.choice([1, 1, 2, 3, 5]) for _ in range(7)]}
    if rng.random() < 0.5:
        # some sends carry a timeout: under contention they may give up at the lock (TimeoutError, nothing written),
        # which must never disturb the critical section of the thread that owns the lock
        for s in senders:
            s["timeouts"] = [rng.choice([None, None, 0, 0, 0.0005, 0.02, 5]) for _ in s["packets"]]
    if rng.random() < 0.85:
        add_thread_aux(rng, case)
    return case


WIDE_N = [1023, 1024, 1025, 1026, 2047, 2048, 2049, 2050, 3000]
_WIDE_ALPHABET = bytes(b for b in range(33, 127))


def wide_packet(rng, tag: str, n: int) -> str:
    """payload for a `chunked` packet of n pieces of 1-4 bytes (the last ones shorter / empty), no separator byte inside, not
    periodic (pieces put on the wire in another order give other bytes)"""
    c = rng.choice([1, 1, 2, 3, 4])
    size = n * c - rng.randint(0, min(n // 2, n * c - (n * (c - 1) + 1)))
    body = bytes(rng.choice(_WIDE_ALPHABET) for _ in range(max(1, size - len(tag))))
    return (tag.encode() + body).hex()


def gen_wide_thread_case(rng, mode: str | None = None) -> dict:
    """round 7: blocking TCPNetworkClient, packets that the serializer hands over in MANY chunks - around and beyond IOV_MAX
    (1024: the transport cuts the queue into sendmsg() batches) - with partial writes that leave any number of buffers of a
    batch unsent.  `span`: scripted partial sizes across buffers (1 byte ... more than a whole batch); `kernel`: the kernel's
    own partial writes (small socket buffers, slow reader), several sender threads"""
    mode = mode or rng.choice(["span", "span", "kernel"])
    nsend = rng.choice([1, 2, 2, 3]) if mode == "span" else rng.choice([2, 3, 4])
    n = rng.choice(WIDE_N + [rng.randint(1025, 3000), rng.randint(1025, 3000), rng.randint(2, 1022)])
    spec = {"k": "chunked", "n": n, "views": "".join(rng.choice("bbbamH") for _ in range(rng.randint(1, 3)))}
    senders = [{"packets": [wide_packet(rng, f"{i}.{j}.", n) for j in range(rng.randint(1, 2 if mode == "span" else 3))]}
               for i in range(nsend)]
    case = {"target": "tcp", "spec": spec, "senders": senders, "wide": True}
    if mode == "span":
        case["span"] = True
        case["sizes"] = [rng.choice([1, 2, 3, 5, 8, 17, 64, 257, 700, 1500, 2048, 5000]) for _ in range(7)]
        nbytes = sum(len(h) // 2 + 1 for s_ in senders for h in s_["packets"])
        calls = max(4, int(nbytes / (sum(case["sizes"]) / len(case["sizes"]))))
        if rng.random() < 0.4:
            case["eagain"] = sorted({rng.randrange(calls) for _ in range(rng.randint(1, 4))})
        if rng.random() < 0.3:
            case["parks"] = sorted({rng.randrange(calls) for _ in range(rng.randint(1, 3))})
            case["park_ms"] = 1
    else:
        case["kernel"] = True
        case["sizes"] = [1]
        case["peer_read"] = rng.choice([256, 1024, 4096])
        case["peer_nap_ms"] = rng.choice([0.2, 0.5, 1])
    return case


def gen_mthreads_case(rng) -> dict:
    """round 6: 2-3 blocking client objects (TCP / UDP mixed) used at the same time, each by its own 2-3 sender threads and
    0-2 auxiliary threads; in 70 % of the cases one object is the `gater`: its senders are parked mid-packet (lock held) until a
    send_packet on ANOTHER client object has completed"""
    n = rng.choice([2, 2, 3])
    objects = []
    for _ in range(n):
        sub = gen_thread_case(rng, rng.choice(["tcp", "tcp", "udp"]))
        sub["senders"] = sub["senders"][:rng.choice([2, 2, 3])]
        for s_ in sub["senders"]:
            for key in ("packets", "timeouts", "idioms"):
                if key in s_:
                    s_[key] = s_[key][:3]
        if "aux" in sub:
            sub["aux"] = sub["aux"][:rng.choice([0, 1, 1, 2])]
        # the plan of parks / EAGAIN answers was drawn for the longer case: fold it into the send calls that are left
        calls = _thread_send_calls(sub)
        for key in ("parks", "eagain"):
            if sub.get(key):
                sub[key] = sorted({k % calls for k in sub[key]})
        objects.append(sub)
    case = {"target": "mthreads", "objects": objects}
    if rng.random() < 0.7:
        g = rng.randrange(n)
        case["gater"] = g
        sub = objects[g]
        calls = _thread_send_calls(sub)
        sub["parks"] = sorted(set(sub.get("parks") or []) | {rng.randrange(calls) for _ in range(rng.randint(2, 5))})
        sub.setdefault("park_ms", 1)
    return case


def _thread_send_calls(case: dict) -> int:
    """about how many send()/sendmsg() calls the socket of a thread case will see"""
    if case["target"] == "tcp":
        nbytes = sum(len(R.expected_chunks(case["spec"], h)) for s in case["senders"] for h in s["packets"])
        return max(4, int(nbytes / (sum(case["sizes"]) / len(case["sizes"]))))
    return max(1, sum(len(s["packets"]) for s in case["senders"]))


def add_thread_aux(rng, case: dict) -> None:
    """format 2 of the thread cases (see c12_threads): the senders are not alone on the client.  Auxiliary threads call the
    other thread-safe methods (everything public that takes the send lock or the receive lock) for as long as the senders
    run, senders use check-then-send idioms, the socket parks the sender mid-packet (lock held, GIL released) at PRNG
    chosen send calls or answers EAGAIN, the peer sends packets of its own for the receive calls"""
    from vlib import c12_threads as T

    tcp = case["target"] == "tcp"
    senders = case["senders"]
    timed = any("timeouts" in s for s in senders)
    if tcp:
        nbytes = sum(len(R.expected_chunks(case["spec"], h)) for s in senders for h in s["packets"])
        calls = max(4, int(nbytes / (sum(case["sizes"]) / len(case["sizes"]))))
    else:
        calls = sum(len(s["packets"]) for s in senders)
    style = rng.random()
    if style < 0.85:
        aux = []
        for _ in range(rng.choice([1, 1, 2, 2, 3])):
            if rng.random() < 0.55:
                # one method per thread: a call that (wrongly) stopped waiting for the lock spins right through the window
                # in which the owner is parked; in a longer list it mostly runs just after a call that did wait
                ops = [rng.choice(["is_closed", "is_closed"] + T.AUX_OPS)]
            else:
                ops = rng.sample(T.AUX_OPS, rng.randint(2, 5))
            aux.append({"ops": ops, "pace": rng.choice(["spin", "spin", "yield", "nap"])})
        case["aux"] = aux
    if style >= 0.85 or rng.random() < 0.5:
        for s in senders:
            if rng.random() < 0.7:
                one = rng.choice(T.IDIOMS)
                s["idioms"] = [one if rng.random() < 0.8 else rng.choice(T.IDIOMS + [None]) for _ in s["packets"]]
    if rng.random() < 0.85:
        case["parks"] = sorted(set(rng.randrange(calls) for _ in range(rng.randint(2, 8))))
        case["park_ms"] = rng.choice([0.3, 0.5, 1, 1, 2])
    if not timed and rng.random() < 0.3:
        # (a send with a timeout of 0 that meets EAGAIN in the middle of its packet gives up there: outside the property)
        case["eagain"] = sorted(set(rng.randrange(calls) for _ in range(rng.randint(1, 4))))
    if any(op in T.RECV_OPS for a in case.get("aux", []) for op in a["ops"]) and rng.random() < 0.7:
        if case["spec"]["k"] == "fixed":
            case["peer_packets"] = [f"p{m:02d}klmnopq"[:case["spec"]["size"]].encode().hex() for m in range(rng.randint(1, 4))]
        else:
            case["peer_packets"] = [f"p.{m}.{''.join(rng.choice('klmn') for _ in range(rng.randint(0, 6)))}".encode().hex()
                                    for m in range(rng.randint(1, 4))]


def grid_cases():
    """thorough tier: the complete grid of start delays x per-write pauses for 2 senders x 1 two-byte packet written one
    byte at a time (every relative timing of the two critical sections), for both lock kinds and the bare endpoint"""
    import itertools

    pk = [["4142"], ["6364"]]
    for target in ("aclient", "endpoint"):
        for lock in (("fair", "asyncio") if target == "aclient" else ("fair",)):
            for d0, d1 in itertools.product([0, 1, 2], repeat=2):
                for pauses in itertools.product([0, 1, 2, -1], repeat=4):
                    yield {"target": target, "lock": lock, "spec": LF, "mode": "iter",
                           "senders": [{"delay": d0, "packets": pk[0]}, {"delay": d1, "packets": pk[1]}],
                           "script": [[1, p] for p in pauses] + [[1, 1]] * 4, "cancels": []}


N_TCP_QUICK, N_UDP_QUICK = 150, 50
N_WIDE_QUICK = 36
N_MTHREADS_QUICK, N_MULTI_QUICK = 50, 500


def generate(rng, tier: str, boost: int):
    quick = tier == "quick"
    plan = [("aclient", 1500 if quick else 20000), ("sclient", 600 if quick else 8000),
            ("fairlock", 1500 if quick else 20000), ("endpoint", 400 if quick else 6000),
            ("tls", 600 if quick else 10000), ("tlsclient", 150 if quick else 2000),
            ("tlsserver", 150 if quick else 2000)]
    # the thread stress cases come first (a time box that cuts the generation short must not cut them off) and draw from a
    # stream of their own
    import random as _random
    trng = _random.Random(rng.getrandbits(64))
    for target, n in [("tcp", N_TCP_QUICK if quick else 900), ("udp", N_UDP_QUICK if quick else 300)]:
        for _ in range(n * boost):
            yield gen_thread_case(trng, target)
    # round 7: packets of around / more than IOV_MAX chunks on the blocking client (scripted and kernel partial writes)
    wrng = _random.Random(rng.getrandbits(64))
    for _ in range((N_WIDE_QUICK if quick else 300) * boost):
        yield gen_wide_thread_case(wrng)
    # round 6: several library objects in one loop / several blocking client objects at the same time (streams of their own,
    # before the long one-object series: a time box must not cut them off)
    mrng = _random.Random(rng.getrandbits(64))
    for _ in range((N_MTHREADS_QUICK if quick else 400) * boost):
        yield gen_mthreads_case(mrng)
    for _ in range((N_MULTI_QUICK if quick else 5000) * boost):
        yield gen_multi_case(mrng)
    for target, n in plan:
        for _ in range(n * boost):
            yield gen_async_case(rng, target)
    # round 5: the TLS engine refuses writes (WANT_READ / WANT_WRITE / partial) in the middle of the backlog
    irng = _random.Random(rng.getrandbits(64))
    for target, n in [("tls", 260 if quick else 5000), ("tlsclient", 70 if quick else 1200), ("tlsserver", 70 if quick else 1200)]:
        for _ in range(n * boost):
            yield gen_inject_case(irng, target)
    if not quick and boost == 1:
        yield from grid_cases()


def extra_coverage(stats) -> dict:
    return {"targets": "aclient, sclient, endpoint, fairlock, tls, tlsclient, tlsserver are replayed through the Lean model "
            "(asyncio.Lock schedules with cancellations: oracle only); tcp/udp thread stress runs: oracle only; TLS cases with "
            "`inject` (engine refuses writes mid-backlog): oracle only; multi / mthreads (several objects at once): oracle only "
            "(every object's trace is compared with the trace of the same object alone, whose kind is replayed through the model "
            "by the one-object cases)",
            "exhaustive_over": "thorough tier: complete grid 3x3 start delays x 4^4 per-write pauses for 2 senders x 2 chunks "
            "(aclient with both lock kinds, bare endpoint)"}
