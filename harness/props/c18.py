"""
C18 — Server lifecycle operations are safe in every order.

real run : (mode "async") the real AsyncTCPNetworkServer / AsyncUDPNetworkServer on loopback sockets, on a deterministic
           event loop; several caller tasks issue serve_forever / shutdown / server_close / probes / task.cancel() /
           client echoes, released at harness-chosen loop turns (vlib/c18_async.py);
           (mode "threads") the real StandaloneTCPNetworkServer / StandaloneUDPNetworkServer with real OS threads (plain
           threads and NetworkServerThread start()/join()), every blocking call under a watchdog, run in worker processes
           (vlib/c18_threads.py, vlib/c18_pool.py); OS schedules are sampled, EXCEPT for the hand-over between a calling
           thread and the exit of the ThreadsPortal, which is crossed deterministically (`"gated": 1`: a harness loop_factory,
           a reporting stand-in for the portal's RLock and a delegating portal stop the threads at scripted steps);
           (mode "portal") backend.create_threads_portal() driven directly by caller threads while it exits, same gates
           (vlib/c18_gates.py).
           Round 5: `acc` = script of accept() failures (capacity errnos -> the listener's 100 ms back-off; the harness event
           loop's sock_accept raises them) with stop / shutdown / server_close / cancel landing in the back-off and a second
           serve_forever on the same server; gated histories that keep the loop thread in the tail of the tear-down (after the
           portal exit) while other threads call shutdown / serve_forever / server_close.
           Round 6: `"port": "fixed"` (a reserved loopback port instead of port 0, vlib/c18_ports.py), op `bye` (a client whose
           connection the SERVER closes first: TIME_WAIT on the server's port), async op `renew` (the closed server object is
           replaced by a new one on the same address): restarts that have to bind the same port again at once.
model run: the observed linearisation (which call started / returned when, with what outcome, the is_serving /
           is_listening flags seen from outside, quiescence points) is given to the Lean transition systems
           EasyNet.Life.A / EasyNet.Life.S (endriver, `life-async` / `life-sa`), which search for a model execution
           exhibiting exactly that trace; the first event no model execution can exhibit is a disagreement.
oracle   : the property's clauses judged on the real trace only (see `oracle`).
"""
from __future__ import annotations

import itertools
import os
from typing import Any

from vlib import core

ID = "C18"
CLAIMED = True
TITLE = "Server lifecycle operations are safe in every order"
REQUIRED_THEOREMS = ["C18_shutdown_waits", "C18_restartable", "C18_closed_refuses", "C18_listeners_closed_after_close",
                     "C18_second_serve_refused", "C18_no_deadlock", "C18_listener_restartable"]
LEVEL_TEXT = (
    "Machine-checked proof (Lean 4) over two labelled transition systems mirroring BaseAsyncNetworkServerImpl and "
    "BaseStandaloneNetworkServerImpl (serve_forever / shutdown / server_close / is_serving, exit-stack order, event swap, "
    "run and factory scopes, close guard, locks, threads portal): for every number of callers, every finite call sequence "
    "and every schedule of atomic steps, shutdown returns only after the run it observed has fully stopped, a stopped "
    "server can serve again unless closed, a closed server refuses with ServerClosedError and keeps its listeners closed, "
    "a second concurrent serve_forever is refused with ServerAlreadyRunning (at most one runner), and no reachable state "
    "is a deadlock; plus a trace-admission correspondence check of both models against the real servers and a direct oracle."
)
LEVEL_NOTE = (
    "Trusted: Lean kernel; axioms propext, Quot.sound, Classical.choice only; the hand-written models are tied to the code "
    "by the correspondence check (async: deterministic loop, every injection turn of start-up and tear-down; standalone: "
    "OS-thread schedules are SAMPLED, not enumerated); asyncio task-group / cancel-scope / Event semantics and "
    "threading.RLock / threading.Event are assumed as encoded in the models; the standalone model mirrors the code WITH "
    "docs/C18-fix-1.patch (server_close must not swallow BusyResourceError)."
)
TECHNIQUE = "Lean 4 inductive invariants over all schedules of two labelled transition systems (any number of callers) + trace-admission correspondence check against the real servers (deterministic loop / real threads) + direct oracle"
TRUSTED_BASE = [
    "Lean 4.33.0 kernel; axioms allowed: propext, Classical.choice, Quot.sound",
    "hand-written models EasyNet/Model/Life.lean (A: async server, S: standalone server) tied to servers/_base.py by trace admission (async: deterministic; standalone: sampled OS schedules)",
    "asyncio 3.12: a cancellation is delivered at the suspension point the task is parked on; TaskGroup exit waits for its children; Event.set wakes every waiter",
    "threading.RLock as a mutex with owner, threading.Event; ThreadsPortal abstracted as: accepts calls while entered, refuses with RuntimeError after exit, drains pending calls on exit",
    "harness: deterministic loop (c10_vloop), backend.getaddrinfo override (public backend= parameter), scripted request handler, watchdog + worker processes, endriver parser",
    "harness gates (vlib/c18_gates.py): asyncio.SelectorEventLoop subclass through runner_options={'loop_factory': ...}, a delegating AbstractThreadsPortal through backend.create_threads_portal(), threading.RLock replaced by a reporting RLock only while ThreadsPortal() is constructed; gates only delay threads (every hold has a time-out)",
]
ASSUMPTIONS = [
    "request handlers do not leak exceptions into the server task group (C17) and terminate when cancelled",
    "listener creation succeeds as far as the environment is concerned (no foreign process on the address; fixed-port histories "
    "reserve their port, vlib/c18_ports.py): a bind refused because of what the server's own previous run left behind is inside",
    "standalone servers: OS-thread interleavings are sampled; the theorems are about the lock / event protocol",
]
RULE = (
    "case = history: 1-4 callers x <= 4 calls each from {serve_forever, shutdown, server_close, cancel of a serve task, "
    "is_serving/is_listening probe, client echo, persistent client; async also server_activate / `async with server` "
    "(2-3 overlapping activations, activation lock contended, oracle only); threads also NetworkServerThread start / join "
    "and a rendez-vous in the start-up window; gated: get_addresses, persistent client, a cross-thread call stopped at "
    "{before the portal lock, portal checked, waiter registered} until the portal exit / loop shut-down has reached {flag flipped, "
    "exit returned, main coroutine done, last loop iteration done, before / after loop.close()}; ThreadsPortal directly: "
    "run_sync / run_sync_soon / run_coroutine / run_coroutine_soon x the same windows x exit normal / with an exception; "
    "the loop thread kept in the tail of the tear-down (portal exited, loop / embedded server still closing) while 1-3 threads "
    "call shutdown / serve_forever / server_close there; TCP: the listener's accept() failing with each capacity errno "
    "(scripted in the harness event loop) with the stop landing in the 100 ms back-off, then serve again; a FIXED port x clients "
    "whose connection the server closed first / the client closed first / still connected at the stop x shutdown then serve_forever "
    "again at once on the same object (standalone: new listeners on the same port) or server_close then a new server object on the "
    "same address (async)} "
    "x schedule (which caller moves at which loop turn, "
    "sleep(0) hops; for threads: barriers and PRNG jitters) x TCP/UDP x suspension points inside service_init and the "
    "listener factory; non-trivial = class of (outcomes seen, calls landing inside start-up / tear-down, restarts, clients); "
    "distinct by case digest"
)

NOISE_PREFIX = "@"


# ----------------------------------------------------------------------------------------------
# running
# ----------------------------------------------------------------------------------------------

def run_real(case: dict) -> list[str]:
    if case.get("path") == "lsn":
        from vlib import c14_listener
        return c14_listener.run_case(case)[0]
    if case.get("mode") in ("threads", "portal"):
        from vlib import c18_pool
        return c18_pool.run_case(case)
    from vlib import c18_async
    return c18_async.run_case(case)


def real_for_diff(case: dict, real: list[str]) -> list[str]:
    return [ln for ln in real if not ln.startswith(NOISE_PREFIX)]


def model_input(case: dict, real: list[str]):
    if case.get("path") == "lsn":
        from vlib import c14_listener
        return c14_listener.model_input(case, real)
    if any(ln.startswith(("infra", "harness-exc", "@skipped")) for ln in real):
        return None
    ops = real_for_diff(case, real)
    if case.get("mode") == "portal":
        # ThreadsPortal driven directly: Life.S abstracts the portal to accept / refuse / drain; oracle only
        return None
    if case.get("mode") == "threads":
        from vlib import c18_pool
        if any(op in ("conn", "disc") for p in case["progs"] for op in p):
            # Life.S has no persistent clients (a server_close() that leaves the serve thread running for a client)
            return None
        # one more model caller per NetworkServerThread (its serve_forever runs in a thread of its own)
        n_nst = sum(1 for p in case["progs"] for op in p if op == "tstart")
        return f"life-sa {len(case['progs']) + 1 + n_nst} {c18_pool.fix_flag()}", ops
    if any(op == "renew" for p in case["progs"] for op in p):
        # the server object is replaced by a new one: Life.A is the machine of ONE object; oracle only
        return None
    if has_activators(case):
        # several tasks inside server_activate() (activation lock contended): Life.A has no activation lock, these
        # histories are judged by the oracle only
        return None
    return f"life-async {len(case['progs']) + 1}", ops


ACTIVATORS = ("activate", "aenter")


def has_activators(case: dict) -> bool:
    return any(op in ACTIVATORS for p in case["progs"] for op in p)


def after_batch() -> None:
    pass


# ----------------------------------------------------------------------------------------------
# oracle (the property itself, on the real trace)
# ----------------------------------------------------------------------------------------------

def parse_trace(real: list[str]) -> dict[str, Any]:
    calls: list[dict] = []
    open_call: dict[int, dict] = {}
    flags: list[tuple[int, int, int]] = []
    notes: list[tuple[int, str]] = []
    cancels: list[tuple[int, int]] = []
    helpers: list[dict] = []          # NetworkServerThread.start() / .join() (threads mode)
    open_helper: dict[int, dict] = {}
    for k, ln in enumerate(real):
        w = ln.split()
        if not w:
            continue
        if w[0] == "@call" and len(w) >= 4:
            h = {"caller": int(w[1]), "op": w[2], "v": int(w[3]), "start": k, "ret": None, "out": None, "alive": None}
            helpers.append(h)
            open_helper[int(w[1])] = h
        elif w[0] == "@ret" and len(w) >= 5:
            h = open_helper.pop(int(w[1]), None)
            if h is not None:
                h["ret"], h["out"], h["alive"] = k, w[3], w[4]
        elif w[0] == "call":
            c = {"caller": int(w[1]), "op": w[2], "start": k, "ret": None, "out": None, "tmo": w[3] if len(w) > 3 else None}
            calls.append(c)
            open_call[int(w[1])] = c
        elif w[0] == "ret":
            c = open_call.pop(int(w[1]), None)
            if c is not None:
                c["ret"] = k
                c["out"] = " ".join(w[2:])
        elif w[0] == "flags":
            flags.append((k, int(w[1]), int(w[2])))
        elif w[0] == "cancel":
            cancels.append((k, int(w[1])))
        elif ln.startswith(NOISE_PREFIX) or w[0] in ("quiet", "final", "conn", "disc", "stalled", "harness-exc", "infra"):
            notes.append((k, ln))
    return {"calls": calls, "flags": flags, "notes": notes, "cancels": cancels, "helpers": helpers}


def _overlaps(y: dict, a: int, b: int | None) -> bool:
    """call y is in progress at some point of [a, b]"""
    if b is not None and y["start"] > b:
        return False
    return y["ret"] is None or y["ret"] > a


def oracle_threads(case: dict, real: list[str]) -> str | None:
    """the same clauses for OS threads: `call`/`ret` lines bracket the real call (the linearisation point is somewhere
    in between), so every rule only uses orderings that are certain: A's `ret` line before B's `call` line = A really
    returned before B started; `@up i` before X = serve i was admitted and up before X."""
    tr = parse_trace(real)
    calls = tr["calls"]
    INF = len(real) + 1
    ups = {}
    for k, ln in enumerate(real):
        if ln.startswith("@up "):
            ups.setdefault(int(ln.split()[1]), []).append(k)
    for k, ln in tr["notes"]:
        if ln.startswith("@hang"):
            stacks = " | ".join(x for _, x in tr["notes"] if x.startswith("@stack"))[:500]
            if ln.endswith(" tstart"):
                h = next((h for h in tr["helpers"] if h["op"] == "tstart" and h["out"] is None), None)
                sv = next((c for c in calls if h and c["caller"] == h["v"] and c["op"] == "serve"), None)
                if sv is not None and sv["out"] is not None:
                    return (f"NetworkServerThread.start() never returned although its serve_forever had ended ({sv['out']}) and "
                            f"the server thread was gone (deadlock; seen twice, second time alone): {ln} {stacks}")
            return f"a call never returned (watchdog expired twice, second time alone): {ln} {stacks}"
    _count_evidence(case, real)
    for c in calls:
        if c["out"] is None:
            return f"call {c['caller']} {c['op']} never returned"
        if c["out"].startswith("exc:"):
            detail = next((ln.split(" ", 2)[2] for ln in real[c["start"]:] if ln.startswith(f"@serve-exc {c['caller']} ")), "") \
                if c["op"] == "serve" else ""
            if detail and "listen_foreign=0" not in detail and "fixed port" in detail:
                # (never seen: another process listening on the port reserved for this history) not a verdict
                INFRA.append("infra a foreign process listens on the reserved port: " + detail[:300])
                return None
            if detail:
                earlier = [y for y in calls if y["op"] == "serve" and y["ret"] is not None and y["ret"] < c["start"] and y["out"] == "ok"]
                closed = any(x["op"] == "close" and x["start"] < c["ret"] for x in calls)
                byes = sum(1 for ln in real[:c["start"]] if ln.startswith("@bye ") and " ok " in ln)
                if earlier and not closed:
                    return (f"serve_forever (thread {c['caller']}) on a stopped, not closed server failed: raised {c['out'][4:]} - "
                            f"{detail} - after {len(earlier)} earlier run(s) of the same server object that shutdown() had stopped"
                            + (f"; during them the server itself had closed {byes} client connection(s) first (handler: client.aclose())"
                               if byes else ""))
                return f"call {c['caller']} serve raised {c['out'][4:]}: {detail}"
            return f"call {c['caller']} {c['op']} raised {c['out'][4:]}"
    for k, ln in tr["notes"]:
        # get_addresses() of the gated histories: returns (whatever the state of the server), raises nothing
        if ln.startswith("@x-ret ") and not ln.endswith(" ok"):
            return "get_addresses() raised " + ln.split()[-1][4:]
    # NetworkServerThread: start() = run serve_forever in a new thread and wait until the server is ready; it must come
    # back in every case (server up, or its serve_forever over: refused, stopped during the set-up, …) and not before;
    # join() = shutdown() + Thread.join(): when it returns (no timeout) the server thread is gone
    for h in tr["helpers"]:
        what = "NetworkServerThread." + {"tstart": "start()", "tjoin": "join()", "tjoinT": "join(timeout)"}.get(h["op"], h["op"])
        if h["out"] is None:
            return f"{what} (thread {h['caller']}) never returned"
        if h["out"] != "ok":
            return f"{what} (thread {h['caller']}) raised {h['out']}"
        if h["op"] == "tstart":
            ready = any(h["start"] < k < h["ret"] for k in ups.get(h["v"], []))
            over = any(c["caller"] == h["v"] and c["op"] == "serve" and c["ret"] < h["ret"] for c in calls)
            if not ready and not over:
                return (f"{what} (thread {h['caller']}) returned although the server was not up and its serve_forever "
                        "had not ended")
        elif h["op"] == "tjoin" and h["alive"] != "alive=0":
            return f"{what} (thread {h['caller']}) returned while the server thread was still alive"
    serves = [c for c in calls if c["op"] == "serve"]
    closes = [c for c in calls if c["op"] == "close"]
    shutdowns = [c for c in calls if c["op"] == "shutdown"]
    for x in serves:
        x["up"] = next((k for k in ups.get(x["caller"], []) if x["start"] < k < x["ret"]), None)

    def stopped_before(y: dict, t: int) -> bool:
        """serve y was certainly over before line t"""
        if y["ret"] < t:
            return True
        if y["up"] is not None:
            # a shutdown() without timeout that started after y was up and returned before t has waited for y
            if any(d["start"] > y["up"] and d["ret"] < t and d["out"] == "ok" for d in shutdowns):
                return True
        return False

    for x in serves:
        out = x["out"]
        may_overlap = [y for y in serves if y is not x and y["out"] not in ("ServerAlreadyRunning", "ServerClosedError")
                       and y["start"] < x["ret"] and not stopped_before(y, x["start"])]
        surely_active = [y for y in serves if y is not x and y["up"] is not None and y["up"] < x["start"] and y["ret"] > x["ret"]]
        closed_before = [c for c in closes if c["out"] == "ok" and c["ret"] < x["start"]]
        close_started = [c for c in closes if c["start"] < x["ret"]]
        if surely_active and out != "ServerAlreadyRunning" and not (out == "ServerClosedError" and close_started):
            return f"second concurrent serve_forever (thread {x['caller']}) was not refused with ServerAlreadyRunning: {out}"
        if out == "ServerAlreadyRunning" and not may_overlap:
            return (f"serve_forever (thread {x['caller']}) refused with ServerAlreadyRunning although every earlier "
                    "serve_forever had returned or had been waited for by a shutdown() that returned")
        if closed_before and not may_overlap and out != "ServerClosedError":
            return f"serve_forever after server_close() returned did not raise ServerClosedError: {out}"
        if out == "ServerClosedError" and not close_started:
            return "serve_forever raised ServerClosedError on a server nobody closed"
        if out not in ("ok", "ServerAlreadyRunning", "ServerClosedError"):
            return f"serve_forever ended with {out}"
        if not may_overlap and not close_started and out != "ok":
            return f"serve_forever on a stopped, not closed server failed: {out}"
    for c in closes:
        if c["out"] == "ok":
            nxt = real[c["ret"] + 1] if c["ret"] + 1 < len(real) else ""
            if nxt.startswith(f"@ret-close {c['caller']} ") and not nxt.endswith("open=0"):
                return "a listener socket is still open when server_close() returns"
            for x in serves:
                if x["up"] is not None and x["up"] > c["ret"]:
                    return "a serve_forever came up after server_close() returned"
            for p in calls:
                if p["op"] == "probe" and p["start"] > c["ret"] and p["out"] == "serving=1":
                    return "is_serving() is True after server_close() returned"
        elif c["out"] == "BusyResourceError":
            if not any(y["start"] < c["ret"] and y["ret"] > c["start"] for y in serves):
                return "server_close raised BusyResourceError while no serve_forever was in progress"
        else:
            return f"server_close ended with {c['out']}"
    for d in shutdowns:
        if d["out"] != "ok":
            return f"shutdown ended with {d['out']}"
        # after shutdown() returned nothing is serving unless a serve_forever may have started after the shutdown began
        later = [y for y in serves if y["ret"] > d["start"] and (y["up"] is None or y["up"] > d["start"])
                 and y["out"] not in ("ServerAlreadyRunning", "ServerClosedError")]
        for p in calls:
            if p["op"] == "probe" and p["out"] == "serving=1" and p["start"] > d["ret"] and not later:
                return "is_serving() is True after shutdown() returned (no serve_forever started since)"
    # "shutdown returns only after serving has fully stopped", judged with the gates: the loop thread logs `@g L:<point>#n
    # held:<why>` when it leaves a point of the tear-down it was kept at (portal exit, runner shut-down, loop.close()), i.e.
    # while serve_forever() is still running; a shutdown() without timeout issued after that serve_forever() was up whose
    # `ret` line precedes such a line has returned while serve_forever() was still tearing down
    gates = [(k, ln.split()[1]) for k, ln in enumerate(real) if ln.startswith("@g L:") and " held:" in ln]
    for d in shutdowns:
        if d["out"] != "ok":
            continue
        for y in serves:
            if y["up"] is None or y["up"] > d["start"]:
                continue
            for g, name in gates:
                if y["up"] < g < y["ret"] and d["ret"] < g:
                    return (f"shutdown() (thread {d['caller']}) returned while the serve_forever() of thread {y['caller']}, up before it was "
                            f"called, was still tearing down: the loop thread was still parked at {name} (portal exited, event loop / "
                            "embedded server not yet closed, is_shutdown not yet set)")
    # clients
    for k, ln in enumerate(real):
        if not ln.startswith(("@echo ", "@bye ")):
            continue
        w = ln.split()
        who, res = int(w[1]), w[2]
        st = next((kk for kk in range(k, -1, -1) if real[kk] == f"{w[0]}-start {who}"), k)
        if res == "ok":
            if not any(y["start"] < k and y["ret"] > st and y["out"] not in ("ServerAlreadyRunning", "ServerClosedError") for y in serves):
                return "a client was served although no serve_forever was in progress"
            if any(c["out"] == "ok" and c["ret"] < st for c in closes):
                return "a new client was served after server_close() returned"
        else:
            sure = [y for y in serves if y["up"] is not None and y["up"] < st and y["ret"] > k]
            disturbed = any(d["start"] < k and d["ret"] > (sure[0]["up"] if sure else 0) for d in calls if d["op"] in ("shutdown", "shutdownT", "close"))
            if sure and not disturbed:
                return f"the server is up but a new client got no answer ({res})"
    fin = next((ln for ln in real if ln.startswith("final ")), None)
    if fin != "final closed=1":
        return "listener sockets still open at the end (after server_close): " + str(fin)
    return None


INFRA: list[str] = []
EVIDENCE: dict[str, int] = {}


def _count_evidence(case: dict, real: list[str]) -> None:
    """counters reported under extra_coverage (no verdict depends on them): fixed-port histories, connections the server closed
    first, restarts that had to bind a port with TIME_WAIT remnants, SO_REUSEADDR of the listening sockets as seen through the
    public get_sockets() proxies (the library does not document the option: evidence only)"""
    if case.get("port") != "fixed":
        return
    EVIDENCE["fixed_port_histories"] = EVIDENCE.get("fixed_port_histories", 0) + 1
    for ln in real:
        if ln.startswith("@bye ") and " ok " in ln:
            EVIDENCE["server_closed_connections"] = EVIDENCE.get("server_closed_connections", 0) + 1
        if ln.startswith(("@bye ", "@reuseaddr ")):
            for tok in ln.split():
                if tok.startswith("reuseaddr="):
                    key = case.get("kind", "tcp") + "_listeners_reuseaddr_" + tok.split("=", 1)[1]
                    EVIDENCE[key] = EVIDENCE.get(key, 0) + 1
        elif ln.startswith("@port ") and "time_wait=" in ln:
            v = ln.split("time_wait=")[1].split()[0]
            if v.isdigit() and int(v) > 0:
                EVIDENCE["serve_calls_over_time_wait"] = EVIDENCE.get("serve_calls_over_time_wait", 0) + 1


def oracle_portal(case: dict, real: list[str]) -> str | None:
    """ThreadsPortal driven directly.  From the property ("no call deadlocks"; "ThreadsPortal refuses calls after exit and
    drains pending ones") and the documented contract of the portal (lowlevel/api_async/backend/abc.py): a call made
    while the portal is neither entered nor exited returns what the function returns; a call made when "the portal is not
    entered or exited" raises RuntimeError (and the function is not run); a coroutine still running when the portal is
    shut down may be cancelled (concurrent.futures.CancelledError); nothing else — in particular no call blocks for
    ever — and when the portal's __aexit__ has returned every call it had accepted has been run."""
    first: dict[str, int] = {}
    calls: list[dict] = []
    open_call: dict[int, dict] = {}
    ran: dict[tuple[int, int], list[int]] = {}
    done: dict[tuple[int, int], list[int]] = {}
    late: list[str] = []
    for k, ln in enumerate(real):
        w = ln.split()
        if not w:
            continue
        if ln.startswith("@hang"):
            stacks = " | ".join(x for x in real if x.startswith("@stack"))[:600]
            return f"a ThreadsPortal call never returned (watchdog expired twice, second time alone): {ln} {stacks}"
        if w[0] in ("entered", "xb", "xd", "loop-end", "final"):
            first.setdefault(w[0], k)
        elif w[0] == "loop-exc":
            return "the loop thread ended with an exception: " + ln
        elif w[0] == "call":
            c = {"i": int(w[1]), "op": w[2], "k": int(w[3]), "start": k, "ret": None, "out": None}
            calls.append(c)
            open_call[c["i"]] = c
        elif w[0] == "ret":
            c = open_call.pop(int(w[1]), None)
            if c is not None:
                c["ret"], c["out"] = k, w[2]
        elif w[0] in ("run", "done", "cancelled"):
            key = (int(w[1]), int(w[2]))
            if w[0] == "run":
                ran.setdefault(key, []).append(k)
            elif w[0] == "done":
                done.setdefault(key, []).append(k)
            if "xd" in first:
                late.append(ln)
    if "final" not in first or "loop-end" not in first:
        return "the run did not complete (loop thread still alive)"
    xb, xd, entered = first.get("xb"), first.get("xd"), first.get("entered")
    for c in calls:
        name = f"{c['op']} (thread {c['i']}, call {c['k']})"
        key = (c["i"], c["k"])
        out = c["out"]
        is_coro = c["op"].startswith("coro")
        if out is None:
            return f"{name} never returned"
        n_run = len(ran.get(key, []))
        if out.startswith("ok:"):
            if out != f"ok:{100 * c['i'] + 7 * c['k'] + 1}":
                return f"{name} returned a wrong result: {out}"
            if n_run != 1 or not (c["start"] < ran[key][0] < c["ret"]):
                return f"{name} returned a result although its function was run {n_run} times during the call"
            if is_coro and not any(c["start"] < d < c["ret"] for d in done.get(key, [])):
                return f"{name} returned a result although its coroutine had not finished"
        elif out == "RuntimeError":
            if n_run:
                return f"{name} was refused with RuntimeError although its function was run"
            if not ((xb is not None and xb < c["ret"]) or entered is None or c["start"] < entered):
                return f"{name} was refused with RuntimeError while the portal was running (entered, exit not begun)"
        elif out == "Cancelled":
            if not is_coro:
                return f"{name} ended with concurrent.futures.CancelledError (not a coroutine call)"
            if xb is None or xb > c["ret"]:
                return f"{name} was cancelled although the portal was not shutting down"
            if done.get(key):
                return f"{name} was cancelled although its coroutine had finished"
        else:
            return f"{name} raised {out[4:] if out.startswith('exc:') else out}"
        if xd is not None and c["start"] > xd and out != "RuntimeError":
            return f"{name} was issued after the portal's __aexit__ had returned and was not refused with RuntimeError: {out}"
    if late:
        return "the portal's __aexit__ returned before a call it had accepted was run (pending call not drained): " + late[0]
    return None


def _pool_lines(real: list[str]) -> str | None:
    for ln in real:
        if ln.startswith("infra"):
            INFRA.append(ln)
            return "skip"
        if ln.startswith("harness-exc"):
            return "run did not complete: " + ln
        if ln.startswith("@skipped"):
            return "skip"
    return None


def oracle(case: dict, real: list[str]) -> str | None:
    if case.get("path") == "lsn":
        from vlib import c14_listener
        return c14_listener.oracle(case, real)
    if case.get("mode") in ("threads", "portal"):
        r = _pool_lines(real)
        if r is not None:
            return None if r == "skip" else r
        return oracle_portal(case, real) if case["mode"] == "portal" else oracle_threads(case, real)
    for ln in real:
        if ln.startswith(("harness-exc", "stalled")):
            return "run did not complete: " + ln
        if ln.startswith("infra"):
            INFRA.append(ln)
            return None
    _count_evidence(case, real)
    if "@renew" in real:
        # the server object was replaced by a new one on the same address (after it had been closed): every object's life
        # is judged on its own (the `final closed=` line of an object precedes the `@renew` that ends it)
        seg: list[str] = []
        k = 0
        for ln in real + ["@renew"]:
            if ln == "@renew":
                why = _oracle_async(case, seg)
                if why:
                    return why if k == 0 else (f"server object #{k + 1} (created on the same address after object #{k} had been "
                                               f"closed): " + why)
                seg, k = [], k + 1
            else:
                seg.append(ln)
        return None
    return _oracle_async(case, real)


def _oracle_async(case: dict, real: list[str]) -> str | None:
    tr = parse_trace(real)
    calls = tr["calls"]
    serves = [c for c in calls if c["op"] == "serve"]
    closes = [c for c in calls if c["op"] == "close"]
    shutdowns = [c for c in calls if c["op"] == "shutdown"]
    INF = len(real) + 1
    # no call hangs / nothing unexpected
    for k, ln in tr["notes"]:
        if ln.startswith("@pending") or ln.startswith("@hang"):
            return f"a call never returned (deadlock): {ln}"
        if ln.startswith("@unhandled"):
            return "unhandled exception in the event loop: " + ln
    for c in calls:
        if c["out"] is None:
            return f"call {c['caller']} {c['op']} never returned"
        if c["out"].startswith("exc:"):
            detail = next((ln.split(" ", 2)[2] for ln in real[c["start"]:] if ln.startswith(f"@serve-exc {c['caller']} ")), "") \
                if c["op"] == "serve" else ""
            if detail and "fixed port" in detail and "listen_foreign=0" not in detail:
                INFRA.append("infra a foreign process listens on the reserved port: " + detail[:300])
                return None
            return f"call {c['caller']} {c['op']} raised {c['out'][4:]}" + (": " + detail if detail else "")
    for x in serves:
        active = [y for y in serves if y is not x and y["start"] < x["start"] and (y["ret"] or INF) > x["start"]
                  and y["out"] != "ServerAlreadyRunning"]
        closed_before = [c for c in closes if c["out"] == "ok" and c["ret"] < x["start"]]
        close_started = [c for c in closes if c["start"] < (x["ret"] or INF)]
        out = x["out"]
        if active and out != "ServerAlreadyRunning":
            return f"second concurrent serve_forever (caller {x['caller']}) was not refused with ServerAlreadyRunning: {out}"
        if not active and out == "ServerAlreadyRunning":
            return f"serve_forever (caller {x['caller']}) refused with ServerAlreadyRunning while no serve_forever was running"
        # (a serve_forever still queued on the activation lock — its closed test not yet reached — that is stopped by a
        # shutdown() / task.cancel() ends like any stopped serve_forever: the "shutdown vs. a serve not yet started" race.
        # It must not have opened anything: the "nothing listening / serving after server_close() returned" clause.)
        stopped_first = (out == "ok" and any(_overlaps(d, x["start"], x["ret"]) for d in calls if d["op"] == "shutdown")) or \
            (out == "cancelled" and any(x["start"] < k < (x["ret"] or INF) and j == x["caller"] for k, j in tr["cancels"]))
        if closed_before and not active and out != "ServerClosedError" and not stopped_first:
            return f"serve_forever after server_close() returned did not raise ServerClosedError: {out}"
        if out == "ServerClosedError" and not close_started:
            return "serve_forever raised ServerClosedError on a server nobody closed"
        if out == "BusyResourceError" and not any(_overlaps(c, x["start"], x["ret"]) for c in closes):
            return "serve_forever raised BusyResourceError with no server_close in progress"
        if not active and not close_started:
            # restartable: must be admitted; unless disturbed before, it must reach serving
            if out not in ("ok", "cancelled"):
                return f"serve_forever on a stopped, not closed server failed: {out}"
            up = next((k for k, s, l in tr["flags"] if k > x["start"] and k < (x["ret"] or INF) and s == 1), None)
            if up is None:
                lim = x["ret"] or INF
                disturbed = any(d["start"] < lim and (d["ret"] or INF) > x["start"] for d in shutdowns) or \
                    any(x["start"] < k < lim and j == x["caller"] for k, j in tr["cancels"])
                if not disturbed:
                    return "serve_forever on a stopped, not closed server never reached serving"
    # server_activate() / `async with server:` — "a closed server refuses with ServerClosedError", whichever call
    # opens the listeners and however long it was queued on the activation lock
    for a in calls:
        if a["op"] not in ACTIVATORS:
            continue
        out = a["out"]
        name = "server_activate()" if a["op"] == "activate" else "`async with server` (__aenter__)"
        close_started = [c for c in closes if c["start"] < a["ret"]]
        if any(c["out"] == "ok" and c["ret"] < a["ret"] for c in closes) and out != "ServerClosedError" and \
                not (out == "cancelled" and any(a["start"] < k < a["ret"] and j == a["caller"] for k, j in tr["cancels"])):
            return f"{name} that completed after server_close() had returned did not raise ServerClosedError: {out}"
        if out == "ServerClosedError" and not close_started:
            return f"{name} raised ServerClosedError on a server nobody closed"
        if out == "cancelled" and not any(a["start"] < k < a["ret"] and j == a["caller"] for k, j in tr["cancels"]):
            return f"{name} ended with CancelledError although nobody cancelled it"
        if out not in ("ok", "ServerClosedError", "cancelled"):
            return f"{name} ended with {out}"
    for d in shutdowns:
        if d["ret"] is None or d["out"] != "ok" or d.get("tmo"):
            continue
        for y in serves:
            if y["out"] != "ServerAlreadyRunning" and y["start"] < d["start"] and (y["ret"] or INF) > d["ret"]:
                return (f"shutdown (caller {d['caller']}) returned while the serve_forever of caller {y['caller']}, "
                        "started before it, had not finished")
        later = any(y["start"] > d["start"] for y in serves)
        nxt = real[d["ret"] + 1] if d["ret"] + 1 < len(real) else ""
        if nxt.startswith(f"@ret-shutdown {d['caller']} ") and nxt.endswith("serving=1") and not later:
            return "is_serving() is True when shutdown returns"
    for c in closes:
        if c["out"] == "ok":
            nxt = real[c["ret"] + 1] if c["ret"] + 1 < len(real) else ""
            if nxt.startswith(f"@ret-close {c['caller']} "):
                if "closed=0" in nxt:
                    return "a listener socket is still open when server_close() returns"
                if "listening=1" in nxt:
                    return "is_listening() is True when server_close() returns"
            # closed means closed: nothing may start listening / serving once server_close() has returned
            for k, sv, ls in tr["flags"]:
                if k > c["ret"] and (sv or ls):
                    return "the server is listening / serving after server_close() returned (is_serving=%d is_listening=%d)" % (sv, ls)
            for p in calls:
                if p["op"] == "probe" and p["start"] > c["ret"] and p["out"] and p["out"] != "flags 0 0":
                    return "the server is listening / serving after server_close() returned (probe: %s)" % p["out"]
        elif c["out"] == "BusyResourceError":
            if not any(_overlaps(y, c["start"], c["ret"]) for y in serves):
                return "server_close raised BusyResourceError while no serve_forever was in progress"
        elif c["out"] is not None:
            return f"server_close ended with {c['out']}"
    # clients
    cur = (0, 0)
    closed_ok_at = min((c["ret"] for c in closes if c["out"] == "ok"), default=INF)
    for k, ln in enumerate(real):
        w = ln.split()
        if w and w[0] == "flags":
            cur = (int(w[1]), int(w[2]))
        elif ln.startswith(("@echo ", "@bye ")):
            res = w[1]
            if cur == (1, 1) and k < min((c["start"] for c in closes), default=INF) and res != "ok":
                return f"the server is serving but a new client got no echo ({res})"
            if cur[0] == 0 and res == "ok":
                return "a new client was served although is_serving() is False"
            if k > closed_ok_at and res == "ok":
                return "a new client was served after server_close() returned"
    fin = next((ln for ln in real if ln.startswith("final ")), None)
    if fin is None:
        return "no final line"
    if fin != "final closed=1":
        return "listener sockets still open at the end (after server_close)"
    return None


def nontrivial(case: dict, real: list[str]) -> str | None:
    if case.get("path") == "lsn":
        from vlib import c14_listener
        return c14_listener.nontrivial(case, real)
    if any(ln.startswith(("@skipped", "infra", "harness-exc")) for ln in real):
        return None
    if case.get("mode") == "portal":
        # class = entry points used x outcomes seen x the step / shut-down point of the first window
        ops = sorted({op for p in case["progs"] for op in p if not op.startswith("w:")})
        outs = sorted({ln.split()[2].split(":")[0] for ln in real if ln.startswith("ret ")})
        h = next((h for h in case.get("holds", []) if not h["at"].startswith("L:")), None)
        win = (h["at"].split(":")[1] + ">" + h["until"][0].split(":")[1]) if h else "-"
        return "P" + case.get("exit", "ok")[0] + "/" + "+".join(ops)[:40] + "/" + "+".join(outs) + "/" + win
    tr = parse_trace(real)
    tags: list[str] = []
    if case.get("gated"):
        # a call really stopped in the hand-over window: which step, released by what
        for ln in real:
            if ln.startswith("@g ") and not ln.startswith("@g L:") and " held:" in ln:
                tags.append("gate-" + ln.split()[1].split(":")[1].split("#")[0] + "-" + ln.split("held:")[1])
                break
        else:
            tail = next((ln for ln in real if ln.startswith("@g L:") and " held:" in ln), None) \
                if any(h.get("until_all") for h in case.get("holds", [])) else None
            # the loop thread kept in the tail of the tear-down while other threads made their calls: where, released by what
            tags.append("gate-tail-" + tail.split()[1].split(":")[1].split("#")[0] + "-" + tail.split("held:")[1] if tail else "gate-none")
    if case.get("acc"):
        # an accept() failure answered with the back-off sleep, and a stop issued while the accept loop is still in it
        in_backoff = False
        hit = False
        for ln in real:
            if ln.startswith("@acc "):
                in_backoff = ln.split()[2] in CAPACITY_ERRNOS
            elif ln == "@tick" or ln.startswith("@echo"):
                in_backoff = False
            elif in_backoff and (ln.startswith("cancel ") or (ln.startswith("call ") and ln.split()[2] in ("shutdown", "close", "shutdownT"))):
                hit = True
                tags.append("acc-stop-in-backoff-" + ("cancel" if ln.startswith("cancel") else ln.split()[2]))
                break
        if not hit and any(ln.startswith("@acc") for ln in real):
            tags.append("acc-fail")
    epi = len(case["progs"])          # the epilogue caller; larger ids: serve_forever threads of NetworkServerThread
    serves = [c for c in tr["calls"] if c["op"] == "serve" and c["caller"] != epi]
    outs = {c["out"] for c in tr["calls"] if c["caller"] != epi}
    INF = len(real) + 1

    def in_startup(k: int) -> bool:
        for x in serves:
            if x["out"] == "ServerAlreadyRunning" or not (x["start"] < k < (x["ret"] or INF)):
                continue
            up = next((kk for kk, s, l in tr["flags"] if kk > x["start"] and s == 1), INF)
            if k < up:
                return True
        return False

    def in_teardown(k: int) -> bool:
        for x in serves:
            if x["out"] == "ServerAlreadyRunning" or not (x["start"] < k < (x["ret"] or INF)):
                continue
            down = next((kk for kk, s, l in reversed(tr["flags"]) if kk < (x["ret"] or INF) and kk > x["start"] and s == 0), None)
            if down is not None and k > down:
                return True
        return False

    acts = [c for c in tr["calls"] if c["op"] in ACTIVATORS]
    for c in tr["calls"]:
        if c["caller"] == epi:
            continue
        if c["op"] in ("shutdown", "close", "serve") and in_startup(c["start"]):
            tags.append(c["op"] + "-in-startup")
        if c["op"] in ("shutdown", "close", "serve") and in_teardown(c["start"]):
            tags.append(c["op"] + "-in-teardown")
        # activation lock contended: a serve_forever / server_activate issued while another task is inside server_activate
        if c["op"] == "serve" or c["op"] in ACTIVATORS:
            if any(a is not c and a["start"] < c["start"] < (a["ret"] or INF) for a in acts) or \
                    (c["op"] in ACTIVATORS and in_startup(c["start"])):
                tags.append("act-queued")
                if any(c["start"] < d["start"] < (c["ret"] or INF) for d in tr["calls"] if d["op"] == "close"):
                    tags.append("act-queued+close")
        if c["op"] in ("close", "shutdown") and any(a["start"] < c["start"] < (a["ret"] or INF) for a in acts):
            tags.append(c["op"] + "-in-activate")
    if acts:
        tags.append("activate")
    for h in tr["helpers"]:
        tags.append("nst")
        if h["op"] == "tstart" and h["ret"] is not None:
            sv = next((c for c in tr["calls"] if c["caller"] == h["v"] and c["op"] == "serve"), None)
            if sv is not None and sv["ret"] is not None and sv["ret"] < h["ret"]:
                # start() released by the end of serve_forever, not by the server coming up
                tags.append("nst-start-" + ("never-up" if sv["out"] == "ok" else "refused"))
        elif h["op"] != "tstart":
            tags.append("nst-join")
    if case.get("port") == "fixed":
        # a run that came up on the fixed port after an earlier run had closed a client connection itself
        bye = next((k for k, ln in enumerate(real) if ln.startswith("@bye ") and " ok" in ln), None)
        if bye is not None and any(k > bye and (ln.startswith("@up ") or ln == "flags 1 1") for k, ln in enumerate(real)) and \
                any(c["op"] in ("shutdown", "close") and c["start"] > bye for c in tr["calls"]):
            tags.append("fixedport-rebind-after-server-close" + ("-renew" if "@renew" in real else ""))
        else:
            tags.append("fixedport")
    if "ServerAlreadyRunning" in outs:
        tags.append("already-running")
    if "ServerClosedError" in outs:
        tags.append("closed-error")
    if "BusyResourceError" in outs:
        tags.append("busy")
    if "cancelled" in outs or tr["cancels"]:
        tags.append("cancel")
    if sum(1 for x in serves if x["out"] in ("ok", "cancelled")) >= 2:
        tags.append("restart")
    if any(ln in ("conn",) or ln.startswith("@echo ok") for ln in real):
        tags.append("client")
    if not tags:
        return None
    first = [t for t in tags if t.startswith(("fixedport", "gate-", "acc-"))] + [t for t in ("act-queued+close", "act-queued", "nst-start-never-up", "nst-start-refused", "nst-join") if t in tags]
    tags = first + [t for t in sorted(set(tags)) if t not in first]
    return case.get("mode", "async")[0] + case.get("kind", "tcp")[0] + "/" + "+".join(tags[:3])


def known_key(case: dict, real: list[str], why: str) -> str:
    """signatures of the two defects found on the unpatched tree (docs/C18.md), everything else: the clause violated"""
    if case.get("path") == "lsn":
        from vlib import c14_listener
        return c14_listener.known_key(case, real, why)
    if "server_close()" in why and ("return" in why):
        tr = parse_trace(real)
        serves = [c for c in tr["calls"] if c["op"] == "serve" and c["out"] not in ("ServerAlreadyRunning",)]
        closes = [c for c in tr["calls"] if c["op"] == "close" and c["out"] == "ok"]
        INF = len(real) + 1
        if case.get("mode") == "threads":
            ups = [k for k, ln in enumerate(real) if ln.startswith("@up ")]
            for c in closes:
                for y in serves:
                    up = next((k for k in ups if k > y["start"] and real[k] == f"@up {y['caller']}"), INF)
                    if y["start"] < c["ret"] and up > c["start"] and (y["ret"] or INF) > c["start"]:
                        return "standalone,server_close,busy-swallowed"
        else:
            for c in closes:
                for y in serves:
                    if y["start"] < c["start"] < (y["ret"] or INF):
                        listening_before = any(y["start"] < k < c["start"] and l == 1 for k, sv, l in tr["flags"])
                        if not listening_before:
                            return "async,server_close,lost-in-shielded-factory"
    return "why=" + "-".join(why.replace(":", " ").replace("(", " ").split()[:4])


def shrink(case: dict):
    if case.get("path") == "lsn":
        from vlib import c14_listener
        yield from c14_listener.shrink(case)
        return
    progs = case["progs"]
    sched = case.get("sched", [])
    for i in range(len(progs)):
        for j in range(len(progs[i])):
            yield {**case, "progs": progs[:i] + [progs[i][:j] + progs[i][j + 1:]] + progs[i + 1:]}
    holds = case.get("holds", [])
    for i in range(len(holds)):
        yield {**case, "holds": holds[:i] + holds[i + 1:]}
    for i in range(len(sched)):
        yield {**case, "sched": sched[:i] + sched[i + 1:]}
    for i, e in enumerate(sched):
        if e and len(e) > 1 and e[1]:
            yield {**case, "sched": sched[:i] + [[e[0], 0]] + sched[i + 1:]}
    for key in ("init_hops", "fac_hops"):
        if case.get(key, 0) > 0:
            yield {**case, key: case[key] - 1}
    if "fac_plan" in case:
        yield {k: v for k, v in case.items() if k != "fac_plan"}


# ----------------------------------------------------------------------------------------------
# generation
# ----------------------------------------------------------------------------------------------

def corpus() -> list[dict]:
    from vlib import c14_listener
    cs: list[dict] = list(c14_listener.corpus())      # the listener machine (Model/Listener.lean, theorem C18_listener_restartable)
    for kind in ("tcp", "udp"):
        base = {"mode": "async", "kind": kind, "init_hops": 1, "fac_hops": 1}
        # shutdown / close / second serve landing at every turn of start-up and of the running phase
        for op in ("shutdown", "close", "serve", "cancel:0"):
            for k in range(0, 12):
                cs.append({**base, "progs": [["serve"], [op, "probe"]], "sched": [[0, 0]] + [[]] * k + [[1, 0]]})
        # serve -> shutdown -> serve (restart) with an echo in each run
        cs.append({**base, "progs": [["serve", "serve"], ["echo", "shutdown", "echo", "echo"]], "sched": [[0, 0]]})
        # two serves from two tasks at the same turn (both orders), then a third one later
        cs.append({**base, "progs": [["serve"], ["serve"], ["serve"]], "sched": [[0, 0], [1, 0], [], [], [2, 0]]})
        cs.append({**base, "progs": [["serve"], ["serve"]], "sched": [[1, 1], [0, 0]]})
        # close while serving then serve
        cs.append({**base, "progs": [["serve", "serve"], ["echo", "close", "serve", "echo"]], "sched": [[0, 0]]})
        # shutdown called twice concurrently; close called concurrently with shutdown, at every turn of tear-down
        for k in range(0, 6):
            cs.append({**base, "progs": [["serve"], ["echo", "shutdown"], ["shutdown"]],
                       "sched": [[0, 0]] + [[]] * 8 + [[1, 0], [1, 0]] + [[]] * k + [[2, 0]]})
            cs.append({**base, "progs": [["serve"], ["echo", "shutdown"], ["close", "probe"]],
                       "sched": [[0, 0]] + [[]] * 8 + [[1, 0], [1, 0]] + [[]] * k + [[2, 0]]})
            cs.append({**base, "progs": [["serve"], ["echo", "close"], ["shutdown", "probe"]],
                       "sched": [[0, 0]] + [[]] * 8 + [[1, 0], [1, 0]] + [[]] * k + [[2, 0]]})
            cs.append({**base, "progs": [["serve"], ["echo", "close"], ["close", "serve"]],
                       "sched": [[0, 0]] + [[]] * 8 + [[1, 0], [1, 0]] + [[]] * k + [[2, 0]]})
    # shutdown / close with a connected client (TCP: client tasks are attached to the server)
    base = {"mode": "async", "kind": "tcp", "init_hops": 0, "fac_hops": 1}
    cs.append({**base, "progs": [["serve"], ["conn", "shutdown", "probe"]], "sched": [[0, 0]]})
    cs.append({**base, "progs": [["serve"], ["conn", "close", "probe", "echo", "disc"]], "sched": [[0, 0]]})
    cs.append({**base, "progs": [["serve"], ["conn", "close", "serve", "shutdown"]], "sched": [[0, 0]]})
    cs.append({**base, "progs": [["serve"], ["conn", "cancel:0", "probe"], ["serve"]], "sched": [[0, 0], [], [], [], [], [], [], [], [1, 0], [1, 0], [], [2, 0]]})
    return cs + corpus_activation() + corpus_accept() + corpus_fixed_port_async()


def _seq(calls: list[tuple[int, int]], lead: int = 12) -> list[list[int]]:
    """schedule: caller 0's first call at turn 0, then `lead` plain turns, then for every (caller, gap): release the caller's
    next call and let `gap` plain turns pass (a release that finds its caller busy is a no-op)"""
    sched: list[list[int]] = [[0, 0]] + [[]] * lead
    for i, gap in calls:
        sched.append([i, 0])
        sched.extend([[]] * gap)
    return sched


def corpus_fixed_port_async() -> list[dict]:
    """asynchronous servers on a FIXED port (reserved for the history), with connections the SERVER closes first (`bye`:
    the handler answers and calls client.aclose(): TIME_WAIT on the server's port): serve -> bye -> shutdown -> serve again
    on the same object (which keeps its listeners: Life.A admits the trace), and serve -> bye -> shutdown -> server_close ->
    a NEW server object on the same address (`renew`, oracle only) -> serve: it must come up and answer, at once."""
    cs: list[dict] = []
    for kind in ("tcp", "udp"):
        b = {"mode": "async", "kind": kind, "init_hops": 1, "fac_hops": 1, "port": "fixed"}
        cs.append({**b, "progs": [["serve", "serve"], ["bye", "shutdown", "echo", "bye", "probe"]], "sched": [[0, 0]]})
        cs.append({**b, "progs": [["serve", "serve", "serve"], ["echo", "bye", "bye", "shutdown", "bye", "shutdown", "echo"]], "sched": [[0, 0]]})
        # close, then a new object on the same address; again; with a client still connected when the first one is closed
        cs.append({**b, "progs": [["serve"], ["bye", "shutdown", "close", "renew", "serve"], ["echo", "bye", "probe"]],
                   "sched": _seq([(1, 0), (1, 15), (1, 15), (1, 0), (1, 15)])})
        cs.append({**b, "progs": [["serve"], ["bye", "close", "renew", "serve"], ["bye", "close", "renew", "serve"], ["echo", "probe"]],
                   "sched": _seq([(1, 0), (1, 15), (1, 0), (1, 15), (2, 0), (2, 15), (2, 0), (2, 15)])})
        if kind == "tcp":
            cs.append({**b, "progs": [["serve"], ["conn", "bye", "close", "disc", "renew", "serve"], ["echo", "bye"]],
                       "sched": _seq([(1, 0), (1, 0), (1, 15), (1, 5), (1, 0), (1, 15)])})
        # renew without any client before (control) and on a server that is not closed (skipped: control)
        cs.append({**b, "progs": [["serve"], ["shutdown", "close", "renew", "serve"], ["echo"]],
                   "sched": _seq([(1, 15), (1, 15), (1, 0), (1, 15)])})
        cs.append({**b, "progs": [["serve"], ["bye", "renew", "echo", "shutdown", "renew", "echo"]], "sched": _seq([(1, 0), (1, 0), (1, 0), (1, 15), (1, 0), (1, 0)])})
    return cs


def _fixed_async(rng) -> dict:
    """random fixed-port histories: 1-3 runs, each with echo / bye / persistent clients, ended by shutdown (same object
    serves again) or shutdown + close / close (a new object on the same address serves)"""
    kind = rng.choice(["tcp", "tcp", "tcp", "udp"])
    runs = rng.choice([2, 2, 3])
    p0, p1 = ["serve"], []
    calls: list[tuple[int, int]] = []
    renewed = False
    for r in range(runs):
        for _ in range(rng.randint(1, 3)):
            op = rng.choice(["bye", "bye", "bye", "echo", "conn" if kind == "tcp" else "echo"])
            p1.append(op)
            calls.append((1, 0))
        if r == runs - 1:
            p1.append("probe")
            calls.append((1, 2))
            break
        how = rng.choice(["shutdown", "shutdown", "shutdown+close", "close"])
        for op in how.split("+"):
            p1.append(op)
            calls.append((1, 15))
        if "close" in how:
            if "conn" in p1:
                p1.append("disc")
                calls.append((1, 5))
            p1 += ["renew", "serve"]
            calls += [(1, 0), (1, 15)]
            renewed = True
            # (from now on caller 1 is inside serve_forever: the clients of the later runs belong to caller 2)
            p2: list[str] = []
            for r2 in range(r + 1, runs):
                for _ in range(rng.randint(1, 3)):
                    p2.append(rng.choice(["bye", "bye", "echo"]))
                    calls.append((2, 0))
            p2.append("probe")
            calls.append((2, 2))
            return {"mode": "async", "kind": kind, "port": "fixed", "progs": [p0, p1, p2], "sched": _seq(calls),
                    "init_hops": rng.choice([0, 1, 2]), "fac_hops": rng.choice([0, 1, 2])}
        p0.append("serve")
    return {"mode": "async", "kind": kind, "port": "fixed", "progs": [p0, p1], "sched": _seq(calls),
            "init_hops": rng.choice([0, 1, 2]), "fac_hops": rng.choice([0, 1, 2])}


CAPACITY_ERRNOS = ("EMFILE", "ENFILE", "ENOMEM", "ENOBUFS")        # constants.ACCEPT_CAPACITY_ERRNOS: log, sleep 100 ms, retry
IGNORABLE_ERRNOS = ("ECONNABORTED", "EPROTO", "EHOSTUNREACH")       # some of constants.IGNORABLE_ACCEPT_ERRNOS: retry at once


def corpus_accept() -> list[dict]:
    """accept() failing with a capacity error (file descriptors / memory exhausted): the listener's accept loop logs and
    sleeps 100 ms before it retries.  The loop's clock is frozen, so the back-off lasts until a `tick`: a shutdown() /
    server_close() / task.cancel() issued meanwhile lands INSIDE the back-off sleep.  Then the same server object must
    serve again (stopped, not closed) — an echo proves it — or refuse (closed)."""
    cs: list[dict] = []
    base = {"mode": "async", "kind": "tcp", "init_hops": 1, "fac_hops": 1}
    k_of = {0: 9, 1: 11, 2: 14}
    n = 0
    for err in CAPACITY_ERRNOS:
        for stop in ("shutdown", "close", "cancel:0"):
            tail = ["probe"] if stop == "close" else ["echo", "probe"]
            for v in range(3):
                k = k_of[(n + v) % 3]
                n += 1
                if v == 0:
                    # the very first accept() fails (Linux allocates the descriptor before it looks at the queue), stop in the back-off
                    acc, p1 = [err], [stop] + tail
                elif v == 1:
                    # the back-off ends, accept() fails again (another errno of the family), stop in the second back-off
                    acc, p1 = [err, CAPACITY_ERRNOS[(n + 1) % 4]], ["tick", stop] + tail
                else:
                    # a client is accepted and served, then accept() fails over and over; stop in a back-off
                    acc, p1 = ["ok"] + [err] * 12, ["echo", stop] + tail
                cs.append({**base, "acc": acc, "progs": [["serve", "serve"], p1], "sched": [[0, 0]] + [[]] * k + [[1, 0]]})
        # an error that is retried at once, then a capacity error; two stops racing in the back-off; restart twice
        cs.append({**base, "acc": [IGNORABLE_ERRNOS[n % 3], err], "progs": [["serve", "serve"], ["shutdown", "echo"]], "sched": [[0, 0]] + [[]] * 10 + [[1, 0]]})
        cs.append({**base, "acc": [err], "progs": [["serve", "serve"], ["shutdown", "echo"], ["shutdown", "probe"]],
                   "sched": [[0, 0]] + [[]] * 10 + [[1, 0], [2, 0]]})
        cs.append({**base, "acc": [err], "progs": [["serve", "serve"], ["shutdown", "probe"], ["close", "probe"]],
                   "sched": [[0, 0]] + [[]] * 10 + [[1, 0], [2, 1]]})
        cs.append({**base, "acc": [err, "ok", err], "progs": [["serve", "serve", "serve"], ["shutdown", "tick", "echo", "shutdown", "echo"]],
                   "sched": [[0, 0]] + [[]] * 10 + [[1, 0]]})
        # the stop arrives at every turn around the moment the accept loop starts and fails
        for k in range(4, 9):
            cs.append({**base, "acc": [err], "progs": [["serve", "serve"], ["shutdown", "echo"]], "sched": [[0, 0]] + [[]] * k + [[1, 0]]})
    return cs


def _accept_async(rng) -> dict:
    """random histories around a failing accept(): 1-3 other callers, stops / ticks / echoes / restarts"""
    n = rng.choice([2, 2, 3])
    acc: list[str] = []
    for _ in range(rng.randint(1, 4)):
        r = rng.random()
        acc.extend(["ok"] if r < 0.2 else [rng.choice(IGNORABLE_ERRNOS)] if r < 0.3 else [rng.choice(CAPACITY_ERRNOS)] * rng.choice([1, 1, 2, 6]))
    progs = [["serve"] + [rng.choice(["serve", "serve", "probe"]) for _ in range(rng.randint(1, 2))]]
    for i in range(1, n):
        progs.append([rng.choice(["shutdown", "shutdown", "close", "cancel:0", "tick", "tick", "echo", "probe", "serve"]) for _ in range(rng.randint(1, 4))])
    sched: list[list[int]] = [[0, 0]] + [[]] * rng.choice([5, 7, 8, 9, 9, 10, 12])
    for _ in range(rng.randint(1, 5)):
        sched.append([rng.randrange(1, n), rng.choice([0, 0, 1])])
        sched.extend([[]] * rng.choice([0, 0, 1, 2, 4]))
    return {"mode": "async", "kind": "tcp", "progs": progs, "sched": sched, "acc": acc,
            "init_hops": rng.choice([0, 1, 2]), "fac_hops": rng.choice([0, 1, 2])}


def corpus_activation() -> list[dict]:
    """overlapping activations (oracle only): task A inside server_activate() — directly, through `async with server:`
    or as the first step of serve_forever() — parked in the listener factory (3 turns) and holding the activation lock;
    task B's serve_forever() / server_activate() queued behind it; server_close() / shutdown() at every later turn of
    A's activation and beyond (B is then queued, in the factory itself, or done)."""
    cs: list[dict] = []
    for kind in ("tcp", "udp"):
        base = {"mode": "async", "kind": kind, "init_hops": 1, "fac_hops": 3}
        for a, b in (("activate", "serve"), ("aenter", "serve"), ("serve", "activate"), ("activate", "activate"), ("aenter", "aenter")):
            for c in ("close", "shutdown"):
                for k1 in ((0, 1) if c == "close" else (0,)):
                    for k2 in range(0, 8):
                        cs.append({**base, "progs": [[a], [b, "probe"], [c, "probe"]],
                                   "sched": [[0, 0]] + [[]] * k1 + [[1, 0]] + [[]] * k2 + [[2, 0]]})
        # three activators, the close in the middle of the queue; a fast first factory call and a slow second one
        for k in (0, 2, 4, 6):
            cs.append({**base, "progs": [["activate"], ["serve"], ["aenter", "serve"], ["close", "serve"]],
                       "sched": [[0, 0], [1, 0], [2, 0]] + [[]] * k + [[3, 0]]})
            cs.append({**base, "fac_plan": [0, 4], "progs": [["activate", "cancel:1"], ["serve"], ["close", "activate"]],
                       "sched": [[0, 0], [1, 0]] + [[]] * k + [[2, 0]]})
        # the activation that holds the lock is cancelled: the queued one takes over; activate, serve, shutdown, serve
        cs.append({**base, "progs": [["activate"], ["serve"], ["cancel:0", "probe", "echo"]], "sched": [[0, 0], [1, 0], [], [2, 0]]})
        cs.append({**base, "progs": [["aenter", "serve", "serve"], ["echo", "shutdown", "echo", "close", "activate"]], "sched": [[0, 0]]})
    return cs


ASYNC_OPS = ["serve", "serve", "shutdown", "shutdown", "close", "probe", "echo"]


def _rand_async(rng) -> dict:
    n = rng.choice([1, 2, 2, 3, 3, 4])
    kind = rng.choice(["tcp", "udp"])
    progs = []
    for i in range(n):
        m = rng.randint(1, 4)
        p = []
        for _ in range(m):
            r = rng.random()
            if r < 0.08:
                p.append(f"cancel:{rng.randrange(n)}")
            elif r < 0.13 and kind == "tcp":
                p.append(rng.choice(["conn", "conn", "disc"]))
            else:
                p.append(rng.choice(ASYNC_OPS))
        progs.append(p)
    if not any("serve" in p for p in progs):
        progs[0].insert(0, "serve")
    sched: list[list[int]] = []
    for _ in range(rng.randint(2, 14)):
        if rng.random() < 0.6:
            sched.append([rng.randrange(n), rng.choice([0, 0, 0, 1, 2])])
        else:
            sched.extend([[]] * rng.choice([1, 1, 2, 3, 5]))
    return {"mode": "async", "kind": kind, "progs": progs, "sched": sched,
            "init_hops": rng.choice([0, 0, 1, 2]), "fac_hops": rng.choice([0, 1, 1, 2])}


def _dense_async(rng) -> dict:
    """one runner, 1-3 other callers whose calls land inside start-up / tear-down windows"""
    kind = rng.choice(["tcp", "udp"])
    n = rng.choice([2, 3, 3, 4])
    ih, fh = rng.choice([0, 1, 2, 3]), rng.choice([0, 1, 2])
    progs = [["serve"] + [rng.choice(["serve", "probe"]) for _ in range(rng.randint(0, 2))]]
    for i in range(1, n):
        progs.append([rng.choice(["shutdown", "close", "serve", "probe", "cancel:0", "shutdown", "close"]) for _ in range(rng.randint(1, 3))])
    sched: list[list[int]] = [[0, 0]]
    for _ in range(rng.randint(2, 10)):
        sched.extend([[]] * rng.choice([0, 0, 1, 1, 2, 3, 4, 7]))
        sched.append([rng.randrange(n), rng.choice([0, 0, 1, 2])])
    return {"mode": "async", "kind": kind, "progs": progs, "sched": sched, "init_hops": ih, "fac_hops": fh}


def _activation_async(rng) -> dict:
    """2-3 tasks that enter server_activate() (activate / `async with` / serve_forever) within a few turns of each
    other while the factory parks, plus close / shutdown / cancel landing at any turn of that window"""
    kind = rng.choice(["tcp", "udp"])
    n_act = rng.choice([2, 2, 3])
    progs: list[list[str]] = []
    for i in range(n_act):
        first = rng.choice(["activate", "aenter", "serve"] if i == 0 else ["serve", "serve", "activate", "aenter"])
        progs.append([first] + [rng.choice(["serve", "activate", "probe", "shutdown", "close"]) for _ in range(rng.randint(0, 2))])
    for i in range(rng.choice([1, 1, 2])):
        progs.append([rng.choice(["close", "close", "close", "shutdown", f"cancel:{rng.randrange(n_act)}"])]
                     + [rng.choice(["probe", "serve", "activate", "close", "shutdown", "echo"]) for _ in range(rng.randint(0, 2))])
    n = len(progs)
    fh = rng.choice([1, 2, 3, 3, 4, 6])
    sched: list[list[int]] = [[0, rng.choice([0, 0, 1])]]
    order = list(range(1, n))
    if rng.random() < 0.3:
        rng.shuffle(order)
    for i in order:
        sched.extend([[]] * rng.choice([0, 0, 0, 1, 1, 2, 3, 5]))
        sched.append([i, rng.choice([0, 0, 0, 1, 2])])
    for _ in range(rng.randint(0, 5)):
        sched.extend([[]] * rng.choice([0, 1, 2, 4]))
        sched.append([rng.randrange(n), rng.choice([0, 0, 1])])
    case = {"mode": "async", "kind": kind, "progs": progs, "sched": sched, "init_hops": rng.choice([0, 1, 2]), "fac_hops": fh}
    if rng.random() < 0.3:
        case["fac_plan"] = [rng.choice([0, 1, 3, 6]) for _ in range(rng.randint(1, 3))]
    return case


def generate(rng, tier: str, boost: int):
    from vlib import c18_pool
    from vlib import c14_listener
    lrng = core.sub_rng(rng.getrandbits(32), "c18-lsn")
    for _ in range((300 if tier == "quick" else 5000) * boost):
        yield c14_listener.gen_case(lrng)
    n_async = (700 if tier == "quick" else 12000) * boost
    n_act = (150 if tier == "quick" else 3000) * boost
    n_thr = (150 if tier == "quick" else 1500) * boost
    # the threaded histories run in worker processes while the deterministic ones are evaluated here
    # first the gated ones (deterministic crossings of the ThreadsPortal hand-over windows: a hang there costs one
    # DEAD_START period, twice), then the sampled ones
    n_gat = (40 if tier == "quick" else 300) * boost
    n_por = (120 if tier == "quick" else 1000) * boost
    grng = core.sub_rng(core.seed_from_env(), ID, tier, "gates", boost)      # (the stream of the older generators is unchanged)
    cg, cp = c18_pool.corpus_gated(), c18_pool.corpus_portal()
    mixed = [c for pair in itertools.zip_longest(cg, cp) for c in pair if c is not None]
    frng = core.sub_rng(core.seed_from_env(), ID, tier, "fixedport", boost)  # (own stream: fixed-port histories)
    n_fix = (30 if tier == "quick" else 300) * boost
    n_fix_thr = (20 if tier == "quick" else 300) * boost
    thr_cases = mixed + [c18_pool.rand_fixed_port(frng) for _ in range(n_fix_thr)] + [c18_pool.rand_portal(grng) for _ in range(n_por)] + \
        [c18_pool.rand_gated(grng) for _ in range(n_gat)] + c18_pool.corpus_threads() + [c18_pool.rand_case(rng) for _ in range(n_thr)]
    c18_pool.prefetch(thr_cases)
    for _ in range(n_fix):
        yield _fixed_async(frng)
    for _ in range(n_async):
        yield _dense_async(rng) if rng.random() < 0.5 else _rand_async(rng)
    for _ in range(n_act):
        yield _activation_async(rng)
    for _ in range((60 if tier == "quick" else 1500) * boost):
        yield _accept_async(grng)
    if tier != "quick" and boost == 1:
        # exhaustive sweep: runner + two other callers, every pair of (op, turn) with turn in 0..11
        for kind in ("tcp", "udp"):
            for (o1, o2) in itertools.product(["shutdown", "close", "serve"], repeat=2):
                for k1 in range(0, 12):
                    for k2 in range(k1, 12):
                        sched = [[0, 0]] + [[]] * k1 + [[1, 0]] + [[]] * (k2 - k1) + [[2, 0]]
                        yield {"mode": "async", "kind": kind, "progs": [["serve"], [o1, "probe"], [o2, "serve"]], "sched": sched,
                               "init_hops": 1, "fac_hops": 1}
    for c in thr_cases:
        yield c


def extra_coverage(stats) -> dict:
    from vlib import c18_pool
    return {"model_scope": "EasyNet.Life.A (async) / EasyNet.Life.S (standalone, fix flag from a behavioural probe)",
            "fixed_port_evidence": dict(sorted(EVIDENCE.items())),
            "standalone_fix_flag": c18_pool.fix_flag(), "threads_infra_retries": c18_pool.STATS.get("retries", 0) + c18_pool.STATS.get("g_retries", 0)}
