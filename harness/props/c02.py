"""
C02 — Parsing depends only on the bytes; a bad frame costs exactly one error.

case    : separator-framed serializer (line / AutoSeparated subclass / JSON lines), a list of frames of kinds
          ok | bad (well delimited, undecodable) | band (size right at the limit) | big (over the limit), cut sizes,
          receive path, buffer hint.  The buffered receive buffer is pre-filled with non-zero stale bytes by a first long frame.
real run: real consumers on the cut stream
model   : Lean consumer+framer models (ru / bru) on the same chunks
oracle  : (i) frames safely within the limit: delivered items == frame-by-frame reference decoding (one item per frame,
              undecodable frame -> exactly one parse error, later frames intact);
          (ii) a frame rejected for its size: whatever is delivered for it contains a limit error (big) and only bytes of
              that frame; delivery resumes intact with the first frame after its terminator.
session 3: separators of 1..4 bytes incl. ones made of distinct bytes (`<|>`), a deterministic family with one cut at every offset
          of a terminator with / without a preceding size rejection (`_terminator_cuts`), debug=True and argument-keeping
          variants; streams known by construction for every serializer kind and the remainder check (vlib/genericfr.py,
          modes stream / direct); delivered packets are retained and re-rendered at the end of the run.
"""
from __future__ import annotations

import functools
from typing import Any

from vlib import core, sers, streamdrive as sd
from vlib import jraw  # ---- raw JSON framer ----

ID = "C02"
CLAIMED = True
TITLE = "Parsing depends only on the bytes; one bad frame = one error"
REQUIRED_THEOREMS = ["C02_sep_copy_chunking_independent", "C02_sep_copy_two_chunkings", "C02_one_item_per_frame",
                     "C02_sep_buffered_chunking_independent", "C02_sep_paths_agree",
                     "C02_sep_copy_resume_after_limit", "C02_sep_copy_resume_then_decode", "C02_sep_buffered_resume_after_limit",
                     "C02_jraw_chunking_independent_partial", "C02_jraw_one_item_per_document"]  # ---- raw JSON framer ----
LEVEL_TEXT = (
    "Machine-checked proof (Lean 4): the modelled consumer over a separator framer equals frame-by-frame decoding of "
    "the accumulated bytes for every chunking of a stream that decodes without size error, and after a size rejection "
    "decoding resumes after the rejected frame's terminator; differential correspondence of the model against the real "
    "consumers (both receive paths, limit band, stale buffer bytes); direct oracle with a frame-by-frame reference decoder."
)
LEVEL_NOTE = (
    "Trusted: Lean kernel + standard axioms; model tied to code by sampled correspondence; payload codec is a parameter; "
    "raw JSON framer: model JRaw + theorems C02_jraw_* (chunking independence proved for streams without optional whitespace "
    "between documents, see docs/JRAW.md); file-based framers are covered by C01/C06/C07 runs, not by this check's theorems."
)
TECHNIQUE = "Lean 4 theorems (chunking independence via refinement to byte-level spec; resumption lemma) + differential correspondence + reference-decoder oracle"
TRUSTED_BASE = [
    "Lean 4.33.0 kernel; axioms allowed: propext, Classical.choice, Quot.sound",
    "hand-written models of read_until, _buffered_readuntil, LimitOverrunError remainder, both consumers; tied by this correspondence check",
    "payload codec (str decode / subclass deserialize / json) is a parameter",
]
ASSUMPTIONS = ["'safely within the limit' = |payload| + |separator| < limit (both paths accept, C07 table)",
               "separator length <= limit (constructor-level configuration assumption, F6)"]
RULE = ("case = serializer x frame kinds (ok/bad/band/big) x cuts/fills x path x hint; non-trivial = contains a bad, band or big "
        "frame, or a cut inside a separator; distinct by case digest")

_aux: dict[str, Any] = {}
STALE = b"\x7e"


def _frames(case: dict) -> list[bytes]:
    sep = sers.separator(case["spec"])
    return [bytes.fromhex(f["payload"]) + sep for f in case["frames"]]


def _proto(case):
    return sd.make_protocol(case["spec"], case["path"])


def run_real(case: dict) -> list[str]:
    if case.get("jraw"):  # ---- raw JSON framer ----
        return jraw.run_real(case, _aux)
    frames = _frames(case)
    stream = b"".join(frames)
    proto = _proto(case)
    lines: list[str] = []
    aux: dict[str, Any] = {}
    if case["path"] == "copy":
        chunks = sd.cut(stream, case["cuts"])
        aux["chunks"] = chunks
        sd.drive_copy(proto, chunks, lines)
    else:
        actual: list[bytes] = []
        sd.drive_buffered(proto, stream, case["cuts"], case["hint"], lines, actual)
        aux["chunks"] = actual
    _aux[core.case_digest(case)] = aux
    return lines


BIG_SKIPPED = [0]


def model_input(case: dict, real: list[str]):
    head = sers.model_head(case["spec"], case["path"], case.get("hint", 0))
    aux = _aux.get(core.case_digest(case))
    if head is None or aux is None:
        return None
    if (sers.limit_of(case["spec"]) or 0) > 256 and (int(core.case_digest(case)[:4], 16) % 4 or len(aux["chunks"]) > 12):
        # the Lean separator framers are quadratic in the frame length (per read): the big-limit family goes through the model
        # in one case out of four, and only when the stream is read in at most 12 pieces (the oracle judges all of them)
        BIG_SKIPPED[0] += 1
        return None
    op = "feed" if case["path"] == "copy" else "fill"
    return head, [f"{op} {core.hexs(c)}" for c in aux["chunks"]]


def model_post(case: dict, lines: list[str]) -> list[str]:
    lines = [ln for ln in lines if not ln.startswith("held ")]
    return sd.codec_items(case["spec"], lines)


def _ref_item(case: dict, ser, payload: bytes) -> str:
    """frame-by-frame reference decoding of one well-delimited frame (written from the property, not the code)"""
    from easynetwork.exceptions import DeserializeError
    spec = case["spec"]
    sep = sers.separator(spec)
    data = payload + sep if sers.keep_end(spec) else payload
    try:
        return sd.pkt_line(sd.frame_decode(spec, ser, data))
    except DeserializeError:
        return "err parse"


def _item_bytes(case: dict, line: str) -> bytes | None:
    """encoded bytes of a delivered packet (to check that junk consists of bytes of the rejected frame)"""
    if not line.startswith("pkt "):
        return None
    txt = line[4:]
    if txt.startswith("b:"):
        return b"" if txt[2:] == "-" else bytes.fromhex(txt[2:])
    try:
        v = eval(txt, {"__builtins__": {}}, {})  # canonical repr of str / json values produced by this harness
    except Exception:
        return None
    if isinstance(v, str):
        return v.encode(sers.recv_spec(case["spec"]).get("encoding", "ascii"), "replace")
    return None


def oracle(case: dict, real: list[str]) -> str | None:
    if case.get("jraw"):  # ---- raw JSON framer ----
        return jraw.oracle(case, real)
    if "crashed" in real:
        return "RuntimeError escaped from the consumer (write buffer exhausted)"
    why = sd.mutated(real)
    if why:
        return why
    spec = case["spec"]
    sep = sers.separator(spec)
    lim = sers.limit_of(spec)
    ser = sers.build(sers.recv_spec(spec))
    items = [ln for ln in real if ln.startswith(("pkt ", "err ", "harness-exc"))]
    if any(ln.startswith("harness-exc") for ln in items):
        return "unexpected exception: " + next(ln for ln in items if ln.startswith("harness-exc"))
    frames = [bytes.fromhex(f["payload"]) for f in case["frames"]]
    # classification written from the property: safe <=> |payload|+|sep| < limit ; big <=> |payload| > limit ; else band
    kinds = []
    for p in frames:
        if len(p) + len(sep) < lim:
            kinds.append("safe")
        elif len(p) > lim + len(sep):
            kinds.append("big")
        else:
            kinds.append("band")
    expect = [_ref_item(case, ser, p) for p in frames]
    n, m = len(frames), len(items)

    @functools.lru_cache(maxsize=None)
    def match(i: int, j: int) -> bool:
        if i == n:
            return j == m
        if kinds[i] == "safe":
            return j < m and items[j] == expect[i] and match(i + 1, j + 1)
        # band: may be delivered normally
        if kinds[i] == "band" and j < m and items[j] == expect[i] and match(i + 1, j + 1):
            return True
        # rejected: k >= 1 items, at least one limit error, packets made of bytes of this frame only
        whole = frames[i] + sep
        seen_limit = False
        for k in range(j, m):
            it = items[k]
            if it == "err limit":
                seen_limit = True
            elif it.startswith("pkt "):
                b = _item_bytes(case, it)
                if b is not None and b not in whole:
                    break
            if seen_limit and match(i + 1, k + 1):
                return True
        return False

    if not match(0, 0):
        return f"delivered {items[:8]} does not match frame-by-frame decoding {list(zip(kinds, expect))[:8]}"
    tail = [ln for ln in real if ln.startswith("buf ")]
    if tail and tail[-1].split()[1] != "-":
        return f"bytes left over after the last frame: {tail[-1]}"
    return None


def nontrivial(case: dict, real: list[str]) -> str | None:
    if case.get("jraw"):  # ---- raw JSON framer ----
        return jraw.nontrivial(case, real)
    kinds = {f["kind"] for f in case["frames"]}
    extra = kinds - {"ok"}
    if not extra:
        return None
    return f"{case['spec']['k']}/{case['path']}/" + "+".join(sorted(extra))


def shrink(case: dict):
    if case.get("jraw"):  # ---- raw JSON framer ----
        yield from jraw.shrink(case)
        return
    fr = case["frames"]
    for i in range(len(fr)):
        if len(fr) > 1:
            yield {**case, "frames": fr[:i] + fr[i + 1:]}
    cuts = case["cuts"]
    if len(cuts) > 1:
        for i in range(len(cuts)):
            yield {**case, "cuts": cuts[:i] + cuts[i + 1:]}
    for i, f in enumerate(fr):
        p = bytes.fromhex(f["payload"])
        sep = sers.separator(case["spec"])
        if f["kind"] in ("ok", "bad") and len(p) > 1 and (p[:-1] + sep).find(sep) == len(p) - 1:
            yield {**case, "frames": fr[:i] + [{**f, "payload": p[:-1].hex()}] + fr[i + 1:]}


def known_key(case: dict, real: list[str], why: str) -> str:
    if case.get("jraw"):  # ---- raw JSON framer ----
        return "ser=jsonraw,path=copy"
    kinds = sorted({f["kind"] for f in case["frames"]})
    return f"path={case['path']},kinds={'+'.join(kinds)}"


def _payload(rng, spec: dict, n: int, bad: bool) -> bytes:
    """a payload of exactly n bytes that does not complete the separator early"""
    sep = sers.separator(spec)
    k = sers.recv_spec(spec)["k"]
    if n > 64:
        # long payloads: an alphabet without the last byte of the separator can never complete it (no retry loop)
        alphabet = bytes(c for c in set(sep + b"abxyz") if c != sep[-1] and c != 0xff)
        p = bytes(rng.choice(alphabet) for _ in range(n))
        if bad:
            p = b"\xff" + p[1:]
        return p
    for _ in range(200):
        if k == "autosep":
            alphabet = bytes(set(sep)) + b"ab"
            p = bytes(rng.choice(alphabet) for _ in range(n))
            if bad and n:
                p = b"\xff" + p[1:]
            elif p[:1] == b"\xff":
                continue
        else:  # line (ascii / utf-8)
            alphabet = b"abxyz \t" + (b"\r" if sep == b"\r\n" else b"")
            p = bytes(rng.choice(alphabet) for _ in range(n))
            if bad and n:
                i = rng.randrange(n)
                p = p[:i] + b"\xff" + p[i + 1:]
        if (p + sep).find(sep) == len(p):
            return p
    fill = next(bytes([c]) for c in b"bcxyz" if c not in sep)
    return fill * n if not bad else b"\xff" + fill * (n - 1)


# separators of 1 to 4 bytes: first byte repeated (7c7c 616162 2d2d3e 6161), first byte = last byte (616261 0d0a0d), all bytes
# distinct (0d0a 3c7c3e "<|>" 0d0a2e 61626364 3c2d2d3e... ): with distinct bytes a terminator cut after its last-but-one byte
# leaves a buffer whose last byte is neither the separator's first byte nor a repetition of the byte before
SEPS = ["0a", "0d0a", "7c7c", "616162", "2d2d3e", "6161", "3c7c3e", "3c7c3e", "616261", "0d0a2e", "61626364", "0d0a0d0a", "0d0a0d"]


def _terminator_cuts():
    """deterministic family: three frames  first | good | end ; `first` is valid, undecodable, in the limit band or oversized;
    ONE cut at every offset of the terminator of `first` (t=1) or of `good` (t=2: the terminator that follows a possible size
    rejection), the rest in one read or dripped byte by byte; both receive paths; separators of 1..4 bytes; payloads that end
    with a proper prefix of the separator where that is a valid payload"""
    for sephex in ("0a", "0d0a", "7c7c", "3c7c3e", "616261", "2d2d3e", "0d0a2e", "61626364", "0d0a0d0a"):
        sep = bytes.fromhex(sephex)
        fill = next(bytes([c]) for c in b"bxyz" if c not in sep)
        lim = 10
        for kind1 in ("ok", "bad", "band", "big"):
            n = {"ok": 3, "bad": 3, "band": lim, "big": lim + len(sep) + 3}[kind1]
            tails = [b""] + [sep[:i] for i in range(1, len(sep))]
            for tl in tails:
                p1 = (b"\xff" if kind1 == "bad" else b"") + fill * (n - len(tl) - (1 if kind1 == "bad" else 0)) + tl
                if (p1 + sep).find(sep) != len(p1) or len(p1) != n:
                    continue
                good = fill * 2 + tl if (fill * 2 + tl + sep).find(sep) == 2 + len(tl) and 2 + len(tl) + len(sep) < lim else fill * 2
                frames = [{"kind": kind1, "payload": p1.hex()}, {"kind": "ok", "payload": good.hex()}, {"kind": "ok", "payload": (fill * 3).hex()}]
                for t, base in ((1, len(p1)), (2, len(p1) + len(sep) + len(good))):
                    for j in range(0, len(sep) + 1):
                        for tail in ([1000], [1]):
                            for path in ("copy", "buffered"):
                                yield {"spec": {"k": "autosep", "sep": sephex, "limit": lim, "check": True}, "path": path,
                                       "frames": frames, "cuts": [base + j] + tail if base + j else tail, "hint": 4}


def _gen_big_limit_case(rng) -> dict:
    """limits far above the small ones of the main family (and above the 1024-byte floor some buffers have), size hints below
    and above the limit: safe frames of every length up to limit - |sep| - 1 (in particular longer than max(hint, 1024)),
    band / oversized frames, coarse and fine reads.  A receive buffer sized after the hint instead of the limit shows here."""
    lim = rng.choice([1100, 1500, 2048, 3000, 4096])
    if rng.random() < 0.5:
        spec = {"k": "line", "newline": rng.choice(["LF", "CRLF"]), "keep_end": rng.random() < 0.3, "encoding": "ascii", "limit": lim}
    else:
        spec = {"k": "autosep", "sep": rng.choice(SEPS), "limit": lim, "check": True}
    sep = sers.separator(spec)
    safe_max = lim - len(sep) - 1
    frames = []
    for _ in range(rng.randint(1, 3)):
        r = rng.random()
        if r < 0.6:
            n = rng.choice([safe_max, safe_max - 1, rng.randint(1025, safe_max), rng.randint(1, safe_max), 1024, 1023 - len(sep), 1024 - len(sep)])
            frames.append({"kind": "ok", "payload": _payload(rng, spec, max(0, min(n, safe_max)), False).hex()})
        elif r < 0.8:
            frames.append({"kind": "band", "payload": _payload(rng, spec, rng.randint(lim - len(sep), lim + len(sep)), False).hex()})
        else:
            frames.append({"kind": "big", "payload": _payload(rng, spec, rng.randint(lim + len(sep) + 1, lim + len(sep) + 40), False).hex()})
    frames.append({"kind": "ok", "payload": _payload(rng, spec, 3, False).hex()})
    cuts = [rng.choice([1000, 4096, 65536, 1024, 1023, 1025, 100, lim, lim - 1, lim + 1, 7]) for _ in range(rng.randint(1, 4))]
    return {"spec": spec, "path": rng.choice(["copy", "buffered", "buffered"]), "frames": frames, "cuts": cuts,
            "hint": rng.choice([1, 64, 1023, 1024, 1025, 2048, lim, lim + 1, 16384])}


def _gen_case(rng, tier: str) -> dict:
    if rng.random() < 0.05:
        return _gen_big_limit_case(rng)
    k = rng.choice(["line", "line", "autosep", "autosep"])
    lim = rng.choice([6, 8, 10, 12, 16, 32])
    if k == "line":
        spec = {"k": "line", "newline": rng.choice(["LF", "CR", "CRLF", "CRLF"]), "keep_end": rng.random() < 0.3,
                "encoding": rng.choice(["ascii", "utf-8"]), "limit": lim}
    else:
        spec = {"k": "autosep", "sep": rng.choice(SEPS), "limit": lim, "check": True}
        if rng.random() < 0.25:
            spec["hold"] = rng.choice(["arg", "text"])
    if rng.random() < 0.25:
        spec["debug"] = True
    if rng.random() < 0.4:
        # session 4: options that leave the framing alone — every ASCII-transparent encoding x every decoding error handler (with
        # replace / ignore / surrogateescape / backslashreplace the "bad" payloads decode: the reference decoder uses the same codec),
        # separator check of the producer off
        sers.vary(rng, spec, ascii_only=True)
    sep = sers.separator(spec)
    path = rng.choice(["copy", "buffered"])
    frames = []
    # buffered path: first a long valid frame of non-zero bytes so that never-received bytes of the buffer are not zeros
    if path == "buffered" and rng.random() < 0.7:
        n = max(1, lim - len(sep) - 1)
        frames.append({"kind": "ok", "payload": (STALE * n).hex()})
    for _ in range(rng.randint(1, 6)):
        r = rng.random()
        safe_max = lim - len(sep) - 1
        if r < 0.45 and safe_max >= 0:
            kind, n = "ok", rng.randint(0 if k == "autosep" else 0, max(0, safe_max))
        elif r < 0.6 and safe_max >= 1:
            kind, n = "bad", rng.randint(1, safe_max)
        elif r < 0.85:
            kind, n = "band", rng.randint(max(0, lim - len(sep)), lim + len(sep))
        else:
            kind, n = "big", rng.randint(lim + len(sep) + 1, lim + len(sep) + 12)
        frames.append({"kind": kind, "payload": _payload(rng, spec, n, kind == "bad").hex()})
    frames.append({"kind": "ok", "payload": _payload(rng, spec, min(3, max(0, lim - len(sep) - 1)), False).hex()})
    mode = rng.random()
    if mode < 0.25:
        cuts = [1]
    elif mode < 0.4:
        cuts = [rng.randint(1, 4)]
    else:
        # cut positions deliberately around the limit and inside separators
        cuts = [rng.choice([1, 1, 2, 3, lim - 2, lim - 1, lim, lim + 1, lim + len(sep), 5, 8, 40]) for _ in range(rng.randint(1, 10))]
        cuts = [c for c in cuts if c > 0] or [1]
    return {"spec": spec, "path": path, "frames": frames, "cuts": cuts, "hint": rng.choice([1, 2, 3, 8, 64, 16384])}


def corpus() -> list[dict]:
    crlf10 = {"k": "line", "newline": "CRLF", "keep_end": False, "encoding": "ascii", "limit": 10}
    out = []
    # F1: band frame (8 + CRLF = limit) cut after 9 bytes on the buffered path, stale buffer
    out.append({"spec": crlf10, "path": "buffered",
                "frames": [{"kind": "ok", "payload": (STALE * 7).hex()}, {"kind": "band", "payload": b"aaaaaaaa".hex()},
                           {"kind": "ok", "payload": b"ok".hex()}], "cuts": [9, 9, 5], "hint": 1024})
    out.append({"spec": crlf10, "path": "copy",
                "frames": [{"kind": "big", "payload": (b"a" * 16).hex()}, {"kind": "ok", "payload": b"ok".hex()}],
                "cuts": [12, 100], "hint": 8})
    out.append({"spec": {"k": "autosep", "sep": "616162", "limit": 8, "check": True}, "path": "buffered",
                "frames": [{"kind": "bad", "payload": "ff61"}, {"kind": "band", "payload": "6262626262"}, {"kind": "ok", "payload": "62"}],
                "cuts": [1], "hint": 4})
    # a safe 3000-byte line under limit 4096 with a small size hint, then a short one (buffer sized after the hint?)
    for hint in (64, 2048):
        out.append({"spec": {"k": "line", "newline": "LF", "keep_end": False, "encoding": "ascii", "limit": 4096}, "path": "buffered",
                    "frames": [{"kind": "ok", "payload": (b"a" * 3000).hex()}, {"kind": "ok", "payload": b"xyz".hex()}],
                    "cuts": [4096], "hint": hint})
    out += jraw.corpus_stream_cases()  # ---- raw JSON framer ----
    return out


def generate(rng, tier: str, boost: int):
    yield from _terminator_cuts()
    n = (3000 if tier == "quick" else 80000) * boost
    for _ in range(n):
        yield _gen_case(rng, tier)
    # ---- raw JSON framer ----
    for _ in range((1200 if tier == "quick" else 40000) * boost):
        yield jraw.gen_stream_case(rng)
    # ---- end raw JSON framer ----
    if tier == "thorough":
        yield from _band_enumeration()


def _band_enumeration():
    """validation only: every payload length 0..limit+|sep|+2 x every pair of cuts, small limits"""
    for lim in (4, 6, 8):
        for sephex in ("0a", "0d0a"):
            spec = {"k": "autosep", "sep": sephex, "limit": lim, "check": True}
            sep = bytes.fromhex(sephex)
            for n in range(0, lim + len(sep) + 3):
                total = n + len(sep) + 3
                for c1 in range(1, total):
                    for c2 in range(1, total - c1 + 1):
                        for path in ("copy", "buffered"):
                            safe = n + len(sep) < lim
                            kind = "ok" if safe else ("big" if n > lim + len(sep) else "band")
                            yield {"spec": spec, "path": path,
                                   "frames": [{"kind": kind, "payload": (b"b" * n).hex()}, {"kind": "ok", "payload": b"b".hex()}],
                                   "cuts": [c1, c2, 100], "hint": 4}


def after_batch() -> None:
    _aux.clear()


# ---- raw JSON framer ----
def extra_coverage(stats) -> dict:
    return {"model_runs_by_framer": dict(sorted(sers.MODEL_RUNS.items())), "retained_packets": dict(sd.RETAINED),
            "big_limit_cases_judged_by_the_oracle_only": BIG_SKIPPED[0]}
# ---- end raw JSON framer ----


# ---- generic framers ----
# file-based / compressor framers (Lean model GenericFr): adds the case kind "generic" and gives the existing cases whose
# serializer is a file toy or a zlib/bz2 wrapper a model run (see vlib/genericfr.py, docs/GENERICFR.md)
from vlib import genericfr as _genericfr  # noqa: E402

_genericfr.install(globals(), "C02")
# ---- end generic framers ----
