"""
C03 — Receive endpoints: every complete packet once, then a sticky end-of-stream.

case    : serializer (separator / fixed-size framers: modelled; others: oracle only) x receive path x API
          (blocking StreamEndpoint, AsyncStreamEndpoint over scripted transports; TCPNetworkClient / AsyncTCPNetworkClient over
          loopback) x transport script (data in any chunking, would-block, reset, other OSError, end of stream anywhere —
          between packets, inside a frame, before any data) x history of recv_packet calls with timeouts in {None, >0, 0}
real run: the real endpoint / client; one line per call (pkt / err / timeout / eos / connerr / oserr / stuck) + `nreads n`
model   : Lean endpoint model `ep` over the consumer + framer models on the same script and calls
oracle  : delivered items are a prefix of the reference decoding of the bytes sent before the close; when end-of-stream is
          reported they are all of it; nothing is delivered from a trailing incomplete frame; after the first end-of-stream
          every call reports it again without reading from the transport (and without blocking).
          TCP clients: the end of the stream is reported with the documented class (ConnectionAbortedError - never
          ClientClosedError or a raw connection error).  After an ABORTIVE close (peer RST, a send of ours on the dead
          connection) completeness is not demanded for bytes still in the kernel / the event loop's buffers, but the packets
          the endpoint had already taken out of the transport (coalesced in one read with a delivered packet) must all be
          delivered before the first end-of-stream.
TCP case families (oracle only): `settle` - every call after the peer's FIN / RST;  `mid` - the fault happens BETWEEN
          receives: k receives of a coalesced burst, then the peer's FIN / RST and / or our own send_packet() on the dead
          connection, noticed by the event loop or not, then receives of every kind (_run_tcp_mid).
TLS families (round 5, oracle only, vlib/c03_tls.py): `atls` - AsyncStreamEndpoint / AsyncTCPNetworkClient(ssl=...) over the real
          AsyncTLSStreamTransport on an in-memory wire (virtual time, every call bounded by event-loop turns: a receive that
          spins is the observation `hang`, not a time-out of the check); `tlstcp` / `tlsatcp` - TCPNetworkClient(ssl=...) /
          AsyncTCPNetworkClient(ssl=...) over loopback.  The peer ends the stream with close_notify / without it (ragged EOF) /
          with a reset / another OSError - between packets, inside a frame, inside a TLS record, before any data - for both
          `standard_compatible` settings, TLS 1.2 / 1.3: every complete packet first, then the end REPORTED with the class
          documented for the layer and the setting, again at every later call.
Thread family (round 5, oracle only, vlib/c03_threads.py): `tcpmt` - 2 to 4 threads on ONE blocking TCPNetworkClient: some parked in
          recv_packet() (with a part of a frame taken), others with recv_packet(timeout=0 | small) /
          iter_received_packets(timeout=0 | small), the peer feeding the stream in between: together they receive exactly what
          was sent, each packet once, per thread in stream order, every call ends with a packet / TimeoutError / the end.
Interrupted receives (round 7, oracle only, vlib/c03_interrupt.py): `aint` - AsyncStreamEndpoint (socketpair) / AsyncTCPNetworkClient
          (loopback) on the REAL asyncio transport and selector loop: receives interrupted (task.cancel, cancel scope,
          backend.timeout / move_on_after / wait_for with 0 or a few ms, iter_received_packets(timeout)) in the same event-loop
          turn as the arrival of their data (I/O first or cancellation first), before it, after it, together with the peer's
          FIN; then the rest of the stream, the close and a drain: all calls together deliver every packet once, in order,
          then the end.
"""
from __future__ import annotations

import asyncio
import errno
import math
import socket
import threading
from typing import Any

from vlib import core, sers, streamdrive as sd
from vlib import c03_interrupt as ai, c03_threads as mt, c03_tls as tls

from easynetwork.exceptions import StreamProtocolParseError
from easynetwork.lowlevel.api_async.backend._asyncio.backend import AsyncIOBackend
from easynetwork.lowlevel.api_async.endpoints.stream import AsyncStreamEndpoint
from easynetwork.lowlevel.api_async.transports.abc import AsyncStreamTransport
from easynetwork.lowlevel.api_sync.endpoints.stream import StreamEndpoint
from easynetwork.lowlevel.api_sync.transports.abc import StreamTransport

ID = "C03"
CLAIMED = True
TITLE = "Receive endpoints: every complete packet once, then sticky end-of-stream"
REQUIRED_THEOREMS = ["C03_delivery", "C03_eos_after_everything", "C03_sticky", "C03_connection_sep_copy", "C03_connection_sep_buffered"]
LEVEL_TEXT = (
    "Machine-checked proof (Lean 4) over the endpoint receive model, generic in the consumer interface: for every transport "
    "script and every history of recv_packet calls, delivered items + what is still complete in the consumer = frame-by-frame "
    "decoding of the bytes read; end-of-stream is reported only when nothing complete is left; after it every call reports it "
    "again with no transport read. Differential correspondence with the real blocking and asynchronous endpoints over scripted "
    "transports, plus TCP clients over loopback judged by the oracle."
)
LEVEL_NOTE = (
    "Trusted: Lean kernel + standard axioms; model tied to code by sampled correspondence; kernel socket close/RST semantics "
    "are exercised (loopback), not modelled; theorems instantiated for the copying and the buffer-filling consumer over the separator framers."
)
TECHNIQUE = "Lean 4 theorems (inductive invariant over call histories, refinement to byte-level decoding) + differential correspondence + reference-decoder oracle"
TRUSTED_BASE = [
    "Lean 4.33.0 kernel; axioms allowed: propext, Classical.choice, Quot.sound",
    "stdlib ssl / OpenSSL as the TLS peer of the harness (in-memory SSLObject, loopback server thread)",
    "hand-written model Model/Endpoint.lean of the four receiver implementations, tied by this correspondence check",
    "scripted transports of the harness (implement EasyNetwork's public transport ABCs)",
]
ASSUMPTIONS = ["a read that would block for ever is represented by the script running out (`stuck`)",
               "consumers always offer at least one byte of buffer (C01_sep_buffered_room)"]
RULE = ("case = serializer x path x API x script (chunking, would-block/reset/oserr, close position) x call history (timeouts None/>0/0); "
        "TCP clients additionally: peer close FIN/RST before the calls, or BETWEEN receives (after k packets of a coalesced burst) "
        "x our own send_packet() before/after it x event-loop turns before the next call; "
        "TLS (AsyncTLSStreamTransport under the endpoint / the client, in memory; TLS clients over loopback): TLS 1.2/1.3 x "
        "standard_compatible x OP_IGNORE_UNEXPECTED_EOF x record cutting x ciphertext chunking x late arrivals x end of the stream "
        "(close_notify / ragged EOF / reset / OSError / none) at a record boundary or inside a record x call history; "
        "threads: 2-4 threads on one TCPNetworkClient x feeds cut inside frames x parked / bounded / racing calls; "
        "interrupted receives on the real asyncio transport (endpoint / client, both protocols): mechanism (cancel, scope, timeout, "
        "move_on_after, wait_for, iterator timeout) x order relative to the arrival (same turn I/O first / cancellation first, "
        "expired deadline, before, after, with the FIN) x piece of the stream x turns before the arrival; "
        "non-trivial = close inside a frame or before any data, or a would-block/zero-timeout call, or calls after end-of-stream, "
        "or a fault between receives; distinct by digest")

_aux: dict[str, Any] = {}
_loop: asyncio.AbstractEventLoop | None = None
_backend = AsyncIOBackend()


class _Stuck(BaseException):
    pass


def _next_event(tr, buffer) -> int:
    if not tr.events:
        raise _Stuck()
    tr.nreads += 1
    ev = tr.events[0]
    if ev[0] == "data":
        b = ev[1]
        n = min(len(b), len(buffer))
        buffer[:n] = b[:n]
        if b[n:]:
            tr.events[0] = ("data", b[n:])
        else:
            tr.events.pop(0)
        return n
    tr.events.pop(0)
    if ev[0] == "eof":
        return 0
    if ev[0] == "block":
        raise TimeoutError(errno.ETIMEDOUT, "scripted would-block")
    if ev[0] == "reset":
        raise ConnectionResetError(errno.ECONNRESET, "scripted reset")
    raise OSError(errno.EIO, "scripted I/O error")


class ScriptedTransport(StreamTransport):
    def __init__(self, events):
        self.events = list(events)
        self.nreads = 0
        self._closed = False

    def recv_into(self, buffer, timeout):
        with memoryview(buffer) as v:
            return _next_event(self, v)

    def send(self, data, timeout):
        return len(data)

    def send_eof(self):
        pass

    def close(self):
        self._closed = True

    def is_closed(self):
        return self._closed

    @property
    def extra_attributes(self):
        return {}


class AsyncScriptedTransport(AsyncStreamTransport):
    def __init__(self, events):
        self.events = list(events)
        self.nreads = 0
        self._closed = False

    async def recv_into(self, buffer):
        await asyncio.sleep(0)
        with memoryview(buffer) as v:
            return _next_event(self, v)

    async def send_all(self, data):
        pass

    async def send_eof(self):
        pass

    async def aclose(self):
        self._closed = True

    def is_closing(self):
        return self._closed

    def backend(self):
        return _backend

    @property
    def extra_attributes(self):
        return {}


def _events(case: dict) -> list[tuple]:
    out = []
    for e in case["events"]:
        if e[0] == "data":
            out.append(("data", bytes.fromhex(e[1])))
        else:
            out.append((e[0],))
    return out


def _classify(exc: BaseException, client: bool) -> str:
    if isinstance(exc, StreamProtocolParseError):
        return sd.err_line(exc)
    if isinstance(exc, TimeoutError):
        return "timeout"
    if isinstance(exc, ConnectionAbortedError):
        return "eos"
    if isinstance(exc, ConnectionError):
        # the clients document ONE way of reporting the end of the stream: ConnectionAbortedError (they convert every
        # connection error); anything else - ClientClosedError ("closed by the user", which never happens in these cases),
        # a raw ConnectionResetError / BrokenPipeError - is reported as what it is and judged by the oracle
        return f"eos-as {type(exc).__name__}" if client else "connerr"
    if isinstance(exc, OSError):
        return "oserr"
    return f"exc {type(exc).__name__}"


def _timeout_of(call: dict):
    return {"none": None, "zero": 0, "pos": 30.0}[call["t"]]


def _run_scripted(case: dict) -> list[str]:
    global _loop
    proto = sd.make_protocol(case["spec"], case["path"])
    lines: list[str] = []
    if case["api"] == "sync":
        tr = ScriptedTransport(_events(case))
        ep = StreamEndpoint(tr, proto, max_recv_size=case["maxrecv"])
        for call in case["calls"]:
            try:
                p = ep.recv_packet(timeout=_timeout_of(call))
                lines.append(sd.pkt_line(p))
            except _Stuck:
                lines.append("stuck")
            except Exception as e:  # noqa: BLE001
                lines.append(_classify(e, False))
            lines.append(f"nreads {tr.nreads}")
        tr.close()
        ep.close()
        return lines
    if _loop is None:
        _loop = asyncio.new_event_loop()

    async def main():
        tr = AsyncScriptedTransport(_events(case))
        ep = AsyncStreamEndpoint(tr, proto, max_recv_size=case["maxrecv"])
        for call in case["calls"]:
            try:
                if call["t"] == "zero":
                    # a receive under an already expired deadline: it may only give up at a suspension point, and a packet
                    # that was taken out of the buffer must be returned, never dropped
                    with _backend.timeout(0):
                        p = await ep.recv_packet()
                else:
                    p = await ep.recv_packet()
                lines.append(sd.pkt_line(p))
            except _Stuck:
                lines.append("stuck")
            except Exception as e:  # noqa: BLE001
                lines.append(_classify(e, False))
            lines.append(f"nreads {tr.nreads}")
        await ep.aclose()

    _loop.run_until_complete(main())
    return lines


def _run_tcp(case: dict) -> list[str]:
    """TCPNetworkClient / AsyncTCPNetworkClient over loopback; the peer writes the data events and closes at `eof`:
    gracefully (FIN) or abortively (`close` = "rst": SO_LINGER 0, the kernel sends RST; on Linux the bytes already queued at
    the receiver stay readable).  With `settle` the calls start only after the peer has closed, so every call kind is
    deterministic: recv (watchdog 5 s), recv with timeout 0, iter_received_packets with timeout 0 / > 0."""
    import struct as _st
    import time as _time

    from easynetwork.clients.async_tcp import AsyncTCPNetworkClient
    from easynetwork.clients.tcp import TCPNetworkClient

    proto = sd.make_protocol(case["spec"], case["path"])
    srv = socket.socket()
    srv.bind(("127.0.0.1", 0))
    srv.listen(1)
    port = srv.getsockname()[1]
    events = _events(case)
    go = threading.Event()
    closed_ev = threading.Event()
    rst = case.get("close") == "rst"
    settle = bool(case.get("settle")) or rst

    def peer():
        conn, _ = srv.accept()
        conn.setsockopt(socket.IPPROTO_TCP, socket.TCP_NODELAY, 1)
        for ev in events:
            if ev[0] == "data":
                conn.sendall(ev[1])
            elif ev[0] == "eof":
                break
        go.wait(5)
        if rst:
            _time.sleep(0.05)      # everything sent is queued at the receiver before the reset is generated
            conn.setsockopt(socket.SOL_SOCKET, socket.SO_LINGER, _st.pack("ii", 1, 0))
        conn.close()
        closed_ev.set()

    th = threading.Thread(target=peer, daemon=True)
    th.start()
    lines: list[str] = []
    calls = case["calls"]

    def kind(call: dict) -> tuple[str, str]:
        return call.get("k", "recv"), (call["t"] if settle else "none")

    try:
        if case["api"] == "tcp":
            with TCPNetworkClient(("127.0.0.1", port), proto, max_recv_size=case["maxrecv"]) as client:
                go.set()
                if settle:
                    closed_ev.wait(5)
                    _time.sleep(0.05)
                seen_eos = False
                for call in calls:
                    k, t = kind(call)
                    tmo = {"none": 5.0 if not seen_eos else 0.5, "pos": 5.0 if not seen_eos else 0.5, "zero": 0}[t]
                    try:
                        if k == "iter":
                            for p in client.iter_received_packets(timeout=tmo):
                                lines.append(sd.pkt_line(p))
                            lines.append("iter-end")
                        else:
                            p = client.recv_packet(timeout=tmo)
                            lines.append(sd.pkt_line(p))
                    except Exception as e:  # noqa: BLE001
                        r = _classify(e, True)
                        lines.append(r)
                        seen_eos = seen_eos or r == "eos"
        else:
            async def main():
                async with AsyncTCPNetworkClient(("127.0.0.1", port), proto, max_recv_size=case["maxrecv"]) as client:
                    go.set()
                    if settle:
                        while not closed_ev.is_set():
                            await asyncio.sleep(0.005)
                        await asyncio.sleep(0.05)
                    seen_eos = False
                    backend = client.backend()
                    for call in calls:
                        k, t = kind(call)
                        try:
                            if k == "iter":
                                async def drain_iter():
                                    async for p in client.iter_received_packets(timeout=0 if t == "zero" else (5.0 if not seen_eos else 0.5)):
                                        lines.append(sd.pkt_line(p))
                                await asyncio.wait_for(drain_iter(), 20.0)
                                lines.append("iter-end")
                            elif t == "zero":
                                with backend.timeout(0):
                                    p = await client.recv_packet()
                                lines.append(sd.pkt_line(p))
                            else:
                                p = await asyncio.wait_for(client.recv_packet(), 5.0 if not seen_eos else 0.5)
                                lines.append(sd.pkt_line(p))
                        except Exception as e:  # noqa: BLE001
                            r = _classify(e, True)
                            lines.append(r)
                            seen_eos = seen_eos or r == "eos"
            asyncio.run(main())
    finally:
        go.set()
        th.join(5)
        srv.close()
    return lines


def _run_tcp_mid(case: dict) -> list[str]:
    """TCPNetworkClient / AsyncTCPNetworkClient over loopback, the connection fault happens BETWEEN receives.

    The peer writes all data events; the harness waits until every byte is at our side (blocking client: FIONREAD == total;
    asynchronous client: the event loop has taken everything out of the kernel), so that the first read of the endpoint
    takes min(read size, everything) and complete packets coalesced with the first one wait in the endpoint's CONSUMER.
    Then the calls run in order; among them
        {"k": "close"}   the peer closes NOW - FIN, or RST (SO_LINGER 0) - and the harness waits for the kernel's own
                         notification on a dup of our descriptor (POLLRDHUP resp. POLLERR|POLLHUP; no sleep), then gives the
                         event loop `noticed` turns (asynchronous client; 0 = the next call is the first to touch the dead socket)
        {"k": "send"}    our own send_packet() (on the dead connection: it fails, or provokes the reset); after it the harness
                         waits for the reset the peer's kernel answers with (POLLERR|POLLHUP, at most 1 s)
    Lines: as _run_tcp, plus `fault close` / `send ok` / `send <ExceptionClass>` markers (not judged)."""
    import fcntl
    import os
    import random as _random
    import select as _select
    import struct as _st
    import termios
    import time as _time

    from easynetwork.clients.async_tcp import AsyncTCPNetworkClient
    from easynetwork.clients.tcp import TCPNetworkClient

    proto = sd.make_protocol(case["spec"], case["path"])
    to_send = sers.gen_packet(_random.Random(5), sers.send_spec(case["spec"]), 3)
    srv = socket.socket()
    srv.bind(("127.0.0.1", 0))
    srv.listen(1)
    port = srv.getsockname()[1]
    events = _events(case)
    total = sum(len(ev[1]) for ev in events if ev[0] == "data")
    sent_ev = threading.Event()
    close_now = threading.Event()
    closed_ev = threading.Event()
    rst = case.get("close") == "rst"
    noticed = int(case.get("noticed", 3))

    def peer():
        conn, _ = srv.accept()
        conn.setsockopt(socket.IPPROTO_TCP, socket.TCP_NODELAY, 1)
        for ev in events:
            if ev[0] == "data":
                conn.sendall(ev[1])
            elif ev[0] == "eof":
                break
        sent_ev.set()
        close_now.wait(30)
        if rst:
            conn.setsockopt(socket.SOL_SOCKET, socket.SO_LINGER, _st.pack("ii", 1, 0))
        conn.close()
        closed_ev.set()

    th = threading.Thread(target=peer, daemon=True)
    th.start()
    lines: list[str] = []
    calls = case["calls"]
    state = {"fault": False, "seen_eos": False}

    def fionread(fd: int) -> int:
        return _st.unpack("i", fcntl.ioctl(fd, termios.FIONREAD, b"\0\0\0\0"))[0]

    def wait_flags(fd: int, mask: int, ms: int) -> bool:
        p = _select.poll()
        p.register(fd, mask)      # POLLERR / POLLHUP are always reported
        t_end = _time.monotonic() + ms / 1000
        while True:
            for _fd, ev in p.poll(max(0, int((t_end - _time.monotonic()) * 1000))):
                if ev & (mask | _select.POLLERR | _select.POLLHUP):
                    return True
            if _time.monotonic() >= t_end:
                return False

    def do_close(fd: int) -> None:
        close_now.set()
        closed_ev.wait(5)
        ok = wait_flags(fd, 0 if rst else _select.POLLRDHUP, 5000)
        lines.append("fault close" if ok else "harness-exc fault not notified by the kernel")
        state["fault"] = True

    def tmo_of(t: str) -> float:
        if t == "zero":
            return 0
        return 5.0 if not (state["fault"] or state["seen_eos"]) else (2.0 if not state["seen_eos"] else 0.5)

    def note(r: str) -> None:
        lines.append(r)
        if r.startswith("eos"):
            state["seen_eos"] = True

    dupfd = -1
    try:
        if case["api"] == "tcp":
            with TCPNetworkClient(("127.0.0.1", port), proto, max_recv_size=case["maxrecv"]) as client:
                dupfd = os.dup(client.socket.fileno())
                sent_ev.wait(5)
                for _ in range(2000):
                    if fionread(dupfd) >= total:
                        break
                    _time.sleep(0.001)
                else:
                    lines.append("harness-exc bytes did not arrive")
                for call in calls:
                    k, t = call.get("k", "recv"), call.get("t", "none")
                    try:
                        if k == "close":
                            do_close(dupfd)
                        elif k == "send":
                            try:
                                client.send_packet(to_send, timeout=2.0)
                                lines.append("send ok")
                            except OSError as e:
                                lines.append(f"send {type(e).__name__}")
                            if state["fault"]:
                                wait_flags(dupfd, 0, 1000)
                        elif k == "iter":
                            for p in client.iter_received_packets(timeout=tmo_of(t)):
                                lines.append(sd.pkt_line(p))
                            lines.append("iter-end")
                        else:
                            lines.append(sd.pkt_line(client.recv_packet(timeout=tmo_of(t))))
                    except Exception as e:  # noqa: BLE001
                        note(_classify(e, True))
        else:
            async def main():
                nonlocal dupfd
                async with AsyncTCPNetworkClient(("127.0.0.1", port), proto, max_recv_size=case["maxrecv"]) as client:
                    backend = client.backend()
                    dupfd = os.dup(client.socket.fileno())
                    while not sent_ev.is_set():
                        await asyncio.sleep(0.001)
                    # every byte is at our socket (loopback: queued when sendall() returned): let the event loop take them
                    for _ in range(2000):
                        if fionread(dupfd) == 0:
                            break
                        await asyncio.sleep(0)
                    else:
                        lines.append("harness-exc bytes left in the kernel")
                    for call in calls:
                        k, t = call.get("k", "recv"), call.get("t", "none")
                        try:
                            if k == "close":
                                do_close(dupfd)
                                for _ in range(noticed):
                                    await asyncio.sleep(0)
                            elif k == "send":
                                try:
                                    await asyncio.wait_for(client.send_packet(to_send), 2.0)
                                    lines.append("send ok")
                                except OSError as e:
                                    lines.append(f"send {type(e).__name__}")
                                if state["fault"]:
                                    wait_flags(dupfd, 0, 1000)
                                    for _ in range(noticed):
                                        await asyncio.sleep(0)
                            elif k == "iter":
                                async def drain_iter():
                                    async for p in client.iter_received_packets(timeout=tmo_of(t)):
                                        lines.append(sd.pkt_line(p))
                                await asyncio.wait_for(drain_iter(), 20.0)
                                lines.append("iter-end")
                            elif t == "zero":
                                with backend.timeout(0):
                                    p = await client.recv_packet()
                                lines.append(sd.pkt_line(p))
                            else:
                                lines.append(sd.pkt_line(await asyncio.wait_for(client.recv_packet(), tmo_of(t))))
                        except Exception as e:  # noqa: BLE001
                            note(_classify(e, True))
            asyncio.run(main())
    finally:
        close_now.set()
        th.join(5)
        srv.close()
        if dupfd >= 0:
            os.close(dupfd)
    return lines


TLS_APIS = ("atls", "tlstcp", "tlsatcp")


def _count_items_fn(spec: dict):
    return lambda data: len(_decode_items(spec, data))


def run_real(case: dict) -> list[str]:
    if case["api"] == "atls":
        return tls.run_mem(case)
    if case["api"] in tls.LOOPBACK:
        return tls.run_loopback_checked(case)
    if case["api"] == "tcpmt":
        return mt.run(case, _count_items_fn(case["spec"]))
    if case["api"] == "aint":
        return ai.run_checked(case, _classify)
    if case["api"] in ("tcp", "atcp") and case.get("mid"):
        return _run_tcp_mid(case)
    if case["api"] in ("tcp", "atcp"):
        return _run_tcp(case)
    return _run_scripted(case)


def model_input(case: dict, real: list[str]):
    if case["api"] in ("tcp", "atcp", "tcpmt", "aint") + TLS_APIS:
        return None
    if case["api"] == "async" and any(c["t"] == "zero" for c in case["calls"]):
        return None       # expired-deadline receives on the asynchronous endpoint: judged by the oracle only
    spec, path = case["spec"], case["path"]
    head = sers.model_head(spec, path, case["maxrecv"])
    if head is None:
        return None
    parts = head.split()
    if path == "copy":
        cfg = "ep copy " + " ".join(parts) + f" {case['maxrecv']}"
    else:
        if parts[0] == "bru":
            cfg = "ep buf bru " + " ".join(parts[2:])
        else:
            cfg = "ep buf " + " ".join(parts)
    ops = []
    for e in case["events"]:
        ops.append("ev " + (f"data {e[1] or '-'}" if e[0] == "data" else e[0]))
    for call in case["calls"]:
        ops.append(f"call {1 if (call['t'] == 'zero' and case['api'] == 'sync') else 0}")
    return cfg, ops


def model_post(case: dict, lines: list[str]) -> list[str]:
    return sd.codec_items(case["spec"], lines)


def _expected(case: dict) -> tuple[list[str], bool]:
    """reference decoding (from the property): items of the frames completely contained in the bytes sent before the close"""
    spec = case["spec"]
    data = b""
    closed = False
    for e in case["events"]:
        if e[0] == "data":
            if not e[1]:
                closed = True
                break
            data += bytes.fromhex(e[1])
        elif e[0] == "eof":
            closed = True
            break
    return _decode_items(spec, data), closed


def _decode_items(spec: dict, data: bytes) -> list[str]:
    """items of the frames completely contained in `data` (reference decoder: split on the separator / fixed size)"""
    ser = sers.build(sers.recv_spec(spec))
    sep = sers.separator(spec)
    n = sers.fixed_size(spec)
    exp = []
    from easynetwork.exceptions import DeserializeError
    if sep is not None:
        parts = data.split(sep)
        for p in parts[:-1]:
            frame = p + sep if sers.keep_end(spec) else p
            try:
                exp.append(sd.pkt_line(sd.frame_decode(spec, ser, frame)))
            except DeserializeError:
                exp.append("err parse")
    elif n is not None:
        for i in range(0, len(data) - n + 1, n):
            try:
                exp.append(sd.pkt_line(ser.deserialize(data[i:i + n])))
            except DeserializeError:
                exp.append("err parse")
    return exp


def _taken_before_fault(case: dict, outs_before: list[str]) -> int | None:
    """mid-fault TCP cases: number of bytes the endpoint has TAKEN OUT of the transport (into its consumer) by the calls made
    before the fault.  Every byte was at our side before the first call, and the endpoint reads only when its consumer holds
    no complete packet, so each read takes exactly min(read size, what is left): read size = max_recv_size (copying path) /
    the whole consumer buffer (buffered path; claimed only when everything fits).  The observed outcomes of those calls are
    cross-checked; None = no claim (not this scenario, or the outcomes are not the expected ones)."""
    data = b"".join(bytes.fromhex(e[1]) for e in case["events"] if e[0] == "data")
    total = len(data)
    if case["path"] == "copy":
        R = case["maxrecv"]
    else:
        proto = sd.make_protocol(case["spec"], "buffered")
        with memoryview(proto.create_buffer(case["maxrecv"])) as mv:
            R = mv.nbytes
        if total > R:
            return None
    spec = case["spec"]
    taken = 0
    delivered = 0
    sim: list[str] = []
    asynchronous = case["api"] == "atcp"

    def items(n: int) -> list[str]:
        return _decode_items(spec, data[:n])

    def one(reads: bool) -> bool:
        nonlocal taken, delivered
        while reads and len(items(taken)) <= delivered and taken < total:
            taken = min(total, taken + R)
        it = items(taken)
        if len(it) > delivered:
            sim.append(it[delivered])
            delivered += 1
            return True
        return False

    for call in case["calls"]:
        k, t = call.get("k", "recv"), call.get("t", "none")
        if k == "close":
            break
        if k == "send":
            continue
        reads = not (asynchronous and t == "zero")     # an asynchronous receive under an expired deadline cannot read
        if k == "recv":
            if not one(reads):
                if t != "zero":
                    return None       # would have waited: not generated
                sim.append("timeout")
        else:
            if t != "zero":
                return None
            while one(reads):
                pass
    if sim != outs_before:
        return None
    return taken


def oracle(case: dict, real: list[str]) -> str | None:
    if case["api"] in TLS_APIS:
        return tls.oracle(case, real, _decode_items)
    if case["api"] == "tcpmt":
        return mt.oracle(case, real, _expected(case)[0])
    if case["api"] == "aint":
        return ai.oracle(case, real, _expected(case)[0])
    # the class of the end-of-stream report is judged on its own; everything else (order, completeness, stickiness) is judged
    # on the history with every such report read as an end-of-stream
    wrong = [(k, ln.split()[1]) for k, ln in enumerate(ln for ln in real if not ln.startswith(("nreads ", "send ", "fault ")) and ln != "iter-end")
             if ln.startswith("eos-as ")]
    why = _oracle_body(case, ["eos" if ln.startswith("eos-as ") else ln for ln in real])
    if wrong:
        k, name = wrong[0]
        cls = (f"call #{k}: the end of the stream / the loss of the connection is reported as {name} instead of the documented "
               "ConnectionAbortedError" + (" (the client was never closed by the user)" if "Closed" in name else ""))
        return f"{why}; and {cls}" if why else cls
    return why


def _oracle_body(case: dict, real: list[str]) -> str | None:
    if any(ln.startswith(("harness-exc", "exc ")) for ln in real):
        return "unexpected exception: " + next(ln for ln in real if ln.startswith(("harness-exc", "exc ")))
    exp, closed = _expected(case)
    outs = [ln for ln in real if not ln.startswith(("nreads ", "send ", "fault ")) and ln != "iter-end"]
    nreads = [int(ln.split()[1]) for ln in real if ln.startswith("nreads ")]
    items = [ln for ln in outs if ln.startswith(("pkt ", "err "))]
    if items != exp[:len(items)]:
        return f"delivered {items[:6]} is not a prefix of the reference decoding {exp[:6]}"
    if closed and "stuck" in outs:
        return "a call would block for ever although the peer has closed the connection (end-of-stream not latched)"
    if "eos" in outs:
        i = outs.index("eos")
        before = [ln for ln in outs[:i] if ln.startswith(("pkt ", "err "))]
        if case["api"] in ("sync", "async") and not any(e[0] == "reset" for e in case["events"]):
            if not closed:
                return "end-of-stream reported although the peer has not closed"
        # an abortive close (RST) may destroy data that was received but not yet read (TCP semantics; asyncio reports the
        # reset at once): the property speaks of the peer closing the stream, so completeness is demanded for FIN only;
        # order, exactly-once and stickiness are demanded in every case
        abortive = case.get("close") == "rst" or any(e[0] in ("reset",) for e in case["events"])
        if case.get("mid"):
            # our own send makes the close abortive: sent before the peer's close, the peer (which never reads) closes with
            # unread data = RST instead of FIN; sent after it, the peer's kernel answers with a reset
            k_eos = next(k for k, ln in enumerate(real) if ln == "eos")
            abortive = abortive or any(ln.startswith("send ") for ln in real[:k_eos])
        if closed and before != exp and not abortive:
            return f"end-of-stream reported after {len(before)} of {len(exp)} complete packets"
        if case.get("mid") and before != exp:
            # abortive close BETWEEN receives: what is still in the kernel / in the event loop's buffers may be lost, but what
            # the endpoint has already taken out of the transport (coalesced with a delivered packet) must come first
            k_fault = next((k for k, ln in enumerate(real) if ln.startswith("fault ")), None)
            if k_fault is not None:
                pre = [ln for ln in real[:k_fault] if not ln.startswith(("nreads ", "send ", "fault ")) and ln != "iter-end"]
                taken = _taken_before_fault(case, pre)
                if taken is not None:
                    data = b"".join(bytes.fromhex(e[1]) for e in case["events"] if e[0] == "data")
                    must = _decode_items(case["spec"], data[:taken])
                    if len(before) < len(must):
                        return (f"end-of-stream reported after {len(before)} packets although {len(must)} complete packets had "
                                f"already been taken out of the transport before the connection was lost (received in the same "
                                f"read as a delivered packet): {must[len(before):][:3]} never delivered")
        after = outs[i:]
        if any(o != "eos" for o in after):
            return f"after end-of-stream a later call returned {[o for o in after if o != 'eos'][:3]}"
        if nreads and len(set(nreads[i:])) > 1:
            return "a call after end-of-stream read from the transport again"
    return None


def nontrivial(case: dict, real: list[str]) -> str | None:
    if case["api"] in TLS_APIS:
        return tls.nontrivial(case, real)
    if case["api"] == "tcpmt":
        return mt.nontrivial(case, real)
    if case["api"] == "aint":
        return ai.nontrivial(case, real)
    outs = [ln for ln in real if not ln.startswith(("nreads ", "send ", "fault ")) and ln != "iter-end"]
    tags = []
    if outs.count("eos") >= 2:
        tags.append("sticky")
    if "timeout" in outs:
        tags.append("timeout")
    if case.get("close_inside"):
        tags.append("close-inside-frame")
    if any(c.get("t") == "zero" for c in case["calls"]):
        tags.append("zero")
    if case.get("mid"):
        tags.append("fault-between-receives" + ("+send" if any(c.get("k") == "send" for c in case["calls"]) else ""))
    if not tags:
        return None
    return f"{case['api']}/{case['path']}/" + "+".join(tags)


def shrink(case: dict):
    if case["api"] in TLS_APIS:
        yield from tls.shrink(case)
        return
    if case["api"] == "tcpmt":
        plan = case["plan"]
        for i in range(len(plan)):
            if len(plan) > 1 and plan[i][0] != "close":
                yield {**case, "plan": plan[:i] + plan[i + 1:]}
        if case.get("nthreads", 2) > 2:
            yield {**case, "nthreads": case["nthreads"] - 1}
        return
    if case["api"] == "aint":
        yield from ai.shrink(case)
        return
    ev = case["events"]
    for i in range(len(ev)):
        if len(ev) > 1:
            yield {**case, "events": ev[:i] + ev[i + 1:]}
    calls = case["calls"]
    for i in range(len(calls)):
        if len(calls) > 1:
            yield {**case, "calls": calls[:i] + calls[i + 1:]}


def known_key(case: dict, real: list[str], why: str) -> str:
    return (f"api={case['api']},path={case['path']}" + (",fault-between-receives" if case.get("mid") else "")
            + (f",layer={case['layer']}" if case.get("layer") else ""))


def _gen_spec(rng) -> dict:
    k = rng.choice(["line", "autosep", "struct", "fixed", "jsonl", "b64"])
    if k == "line":
        return {"k": "line", "newline": rng.choice(["LF", "CRLF"]), "keep_end": rng.random() < 0.3, "encoding": "utf-8", "limit": 64}
    if k == "autosep":
        return {"k": "autosep", "sep": rng.choice(["0a", "0d0a", "7c7c"]), "limit": 64, "check": True}
    if k == "struct":
        return {"k": "struct", "format": rng.choice(["!HB", "!IH"])}
    if k == "fixed":
        return {"k": "fixed", "size": rng.choice([1, 3, 5])}
    if k == "jsonl":
        return {"k": "json", "use_lines": True, "limit": 256}
    return {"k": "b64", "inner": {"k": "json", "use_lines": True, "limit": 65536}, "alphabet": "urlsafe", "checksum": False,
            "separator": "0d0a", "limit": 256}


def _gen_case(rng, api: str) -> dict:
    spec = _gen_spec(rng)
    path = "buffered" if (sers.is_buffered(spec) and rng.random() < 0.5) else "copy"
    packets = [sers.gen_packet(rng, spec, 8) for _ in range(rng.randint(0, 5))]
    frames = sd.produce(spec, packets) if packets else []
    stream = b"".join(frames)
    close_inside = False
    r = rng.random()
    if r < 0.35 and stream:
        cut = rng.randint(0, len(stream))
        bounds, acc = {0}, 0
        for f in frames:
            acc += len(f)
            bounds.add(acc)
        close_inside = cut not in bounds
        stream = stream[:cut]
    # undecodable frame now and then (separator framers)
    sep = sers.separator(spec)
    if sep is not None and sers.recv_spec(spec)["k"] in ("line", "autosep") and rng.random() < 0.2:
        stream = b"\xffbad" + sep + stream
    chunks = [c for c in sd.cut(stream, [rng.choice([1, 2, 3, 5, 8, 40]) for _ in range(rng.randint(1, 6))]) if c]
    events: list[list] = []
    for c in chunks:
        if api in ("sync", "async") and rng.random() < 0.2:
            events.append([rng.choice(["block", "block", "oserr"])])
        events.append(["data", c.hex()])
    if rng.random() < 0.85 or api in ("tcp", "atcp"):
        events.append(["eof"])
    elif rng.random() < 0.5:
        events.append(["reset"])
    ncalls = len(packets) + rng.randint(1, 5)
    calls = [{"t": rng.choice(["none", "pos", "zero"]) if api == "sync" else "none"} for _ in range(ncalls)]
    case = {"spec": spec, "path": path, "api": api, "events": events, "calls": calls,
            "maxrecv": rng.choice([1, 2, 3, 8, 64, 16384]), "close_inside": close_inside}
    if api == "async" and rng.random() < 0.3:
        # receives under an already expired deadline (backend.timeout(0)), oracle only
        case["calls"] = [{"t": rng.choice(["none", "zero", "zero"])} for _ in range(ncalls + 2)] + [{"t": "none"}] * (len(packets) + 2)
    if api in ("tcp", "atcp") and rng.random() < 0.7:
        # the calls start after the peer has closed (FIN or RST): every kind of call is deterministic then
        case["settle"] = True
        case["close"] = rng.choice(["fin", "rst"])
        case["calls"] = ([{"k": rng.choice(["recv", "recv", "iter"]), "t": rng.choice(["none", "pos", "zero", "zero"])}
                          for _ in range(rng.randint(1, len(packets) + 3))]
                         + [{"k": "recv", "t": "none"}] * (len(packets) + 3))
    return case


def _gen_mid_case(rng, api: str) -> dict:
    """TCP clients, the connection fault happens BETWEEN receives: k packets of a coalesced burst are received first, then the
    peer closes (FIN / RST) and / or our own send_packet() hits the dead connection, then more receives of every kind"""
    case = _gen_case(rng, api)
    case.pop("settle", None)
    case["mid"] = True
    case["close"] = rng.choice(["rst", "rst", "fin"])
    case["noticed"] = rng.choice([0, 1, 3, 3, 10])
    case["maxrecv"] = rng.choice([2, 3, 8, 64, 16384, 16384, 16384])
    if not any(e[0] == "eof" for e in case["events"]):
        case["events"].append(["eof"])
    data = b"".join(bytes.fromhex(e[1]) for e in case["events"] if e[0] == "data")
    n_items = len(_decode_items(case["spec"], data))
    pre: list[dict] = []
    budget = n_items
    for _ in range(rng.choice([0, 1, 1, 1, 2, 3])):
        if rng.random() < 0.15:
            pre.append({"k": "iter", "t": "zero"})
            if api == "tcp":
                budget = 0        # the blocking iterator takes everything that has arrived
        elif budget > 0:
            pre.append({"k": "recv", "t": rng.choice(["none", "none", "pos", "zero"])})
            budget -= 1
        elif api == "tcp" or rng.random() < 0.5:
            pre.append({"k": "recv", "t": "zero"})
    if rng.random() < 0.15:
        pre.insert(rng.randint(0, len(pre)), {"k": "send"})
    post: list[dict] = []
    for _ in range(rng.randint(0, 4)):
        r = rng.random()
        if r < 0.3:
            post.append({"k": "send"})
        else:
            post.append({"k": rng.choice(["recv", "recv", "iter"]), "t": rng.choice(["none", "pos", "zero", "zero"])})
    case["calls"] = pre + [{"k": "close"}] + post + [{"k": "recv", "t": "none"}] * (n_items + 3)
    return case


def _frame_ends(spec: dict, data: bytes) -> list[int]:
    """offsets just after each complete frame of `data` (reference framing: separator / fixed size)"""
    sep = sers.separator(spec)
    n = sers.fixed_size(spec)
    out: list[int] = []
    if sep is not None:
        i = data.find(sep)
        while i >= 0:
            out.append(i + len(sep))
            i = data.find(sep, i + len(sep))
    elif n:
        out = list(range(n, len(data) + 1, n))
    return out


def _inside_frame(spec: dict, data: bytes) -> bool:
    ends = _frame_ends(spec, data)
    return len(data) > (ends[-1] if ends else 0)


def _n_items_tls(case: dict) -> int:
    return len(_decode_items(case["spec"], tls.delivered_plain(case)))


def _gen_tls_case(rng, loopback: bool) -> dict:
    """TLS receive paths: the plaintext of a scripted case, one TLS record per chunk; the peer ends the stream with close_notify,
    without it (ragged EOF), with a reset / another OSError - between two records, inside a record, before any data"""
    base = _gen_case(rng, "sync")
    case = (tls.gen_loopback_case if loopback else tls.gen_mem_case)(rng, base, _n_items_tls)
    case["close_inside"] = _inside_frame(case["spec"], tls.delivered_plain(case))
    return case


def _gen_mt_case(rng) -> dict:
    """several threads on one blocking TCPNetworkClient (vlib/c03_threads.py)"""
    base = _gen_case(rng, "tcp")
    data = b"".join(bytes.fromhex(e[1]) for e in base["events"] if e[0] == "data")
    nthreads = rng.choice([2, 2, 3, 3, 4])
    feeds, plan = mt.gen_plan(rng, data, _frame_ends(base["spec"], data), nthreads)
    return {"api": "tcpmt", "spec": base["spec"], "path": base["path"], "maxrecv": rng.choice([1, 3, 8, 64, 16384, 16384]),
            "events": [["data", data.hex()], ["eof"]] if data else [["eof"]], "feeds": feeds, "plan": plan, "nthreads": nthreads,
            "close_inside": _inside_frame(base["spec"], data), "calls": []}


def _gen_aint_case(rng) -> dict:
    """interrupted receives on the real asyncio transport (vlib/c03_interrupt.py)"""
    base = _gen_case(rng, "tcp")
    data = b"".join(bytes.fromhex(e[1]) for e in base["events"] if e[0] == "data")
    layer = rng.choice(["endpoint", "client"])
    path = "buffered" if (sers.is_buffered(base["spec"]) and rng.random() < 0.65) else "copy"
    return {"api": "aint", "layer": layer, "spec": base["spec"], "path": path,
            "maxrecv": rng.choice([1, 3, 8, 64, 16384, 16384, 16384]),
            "events": [["data", data.hex()], ["eof"]] if data else [["eof"]],
            "plan": ai.gen_plan(rng, data, _frame_ends(base["spec"], data), layer == "client"),
            "ndrain": len(_decode_items(base["spec"], data)) + 4,
            "close_inside": _inside_frame(base["spec"], data), "calls": []}


def corpus() -> list[dict]:
    crlf = {"k": "line", "newline": "CRLF", "keep_end": False, "encoding": "ascii", "limit": 16}
    out = []
    for api in ("sync", "async"):
        for path in ("copy", "buffered"):
            # close inside the third frame, would-block in the middle, five calls
            out.append({"spec": crlf, "path": path, "api": api,
                        "events": [["data", "610d"], ["block"], ["data", "0a620d0a63"], ["eof"]],
                        "calls": [{"t": "none"}] * 5, "maxrecv": 4, "close_inside": True})
            # close before any data
            out.append({"spec": crlf, "path": path, "api": api, "events": [["eof"]], "calls": [{"t": "zero"}] * 3,
                        "maxrecv": 8, "close_inside": False})
            # two packets in one read, zero timeouts
            out.append({"spec": crlf, "path": path, "api": api, "events": [["data", "610d0a620d0a"], ["eof"]],
                        "calls": [{"t": "zero"}] * 4, "maxrecv": 64, "close_inside": False})
    # TCP clients: three packets queued at the receiver, then the peer resets the connection; then mixed call kinds
    lf = {"k": "line", "newline": "LF", "keep_end": False, "encoding": "ascii", "limit": 64}
    for api in ("tcp", "atcp"):
        for path in ("copy", "buffered"):
            for close in ("rst", "fin"):
                out.append({"spec": lf, "path": path, "api": api, "events": [["data", "410a420a430a"], ["eof"]], "settle": True,
                            "close": close, "maxrecv": 16384, "close_inside": False,
                            "calls": [{"k": "recv", "t": "none"}, {"k": "recv", "t": "zero"}, {"k": "iter", "t": "zero"}]
                                     + [{"k": "recv", "t": "none"}] * 4})
                out.append({"spec": lf, "path": path, "api": api, "events": [["data", "410a420a430a"], ["data", "440a"], ["eof"]],
                            "settle": True, "close": close, "maxrecv": 4, "close_inside": False,
                            "calls": [{"k": "iter", "t": "zero"}] + [{"k": "recv", "t": "none"}] * 6})
    # TCP clients: the fault happens BETWEEN receives: A is received (B and C, coalesced in the same read, wait in the endpoint's
    # consumer), then the peer resets / closes the connection, and / or our own send_packet() fails on it; then receives of
    # every kind: B and C must come first, then ConnectionAbortedError for ever
    for api in ("tcp", "atcp"):
        for path in ("copy", "buffered"):
            for close in ("rst", "fin"):
                base = {"spec": lf, "path": path, "api": api, "events": [["data", "410a420a430a"], ["eof"]], "mid": True,
                        "close": close, "maxrecv": 16384, "close_inside": False}
                tail = [{"k": "recv", "t": "none"}] * 5
                for noticed in (0, 3):
                    out.append({**base, "noticed": noticed, "calls": [{"k": "recv", "t": "none"}, {"k": "close"}] + tail})
                    out.append({**base, "noticed": noticed, "calls": [{"k": "recv", "t": "none"}, {"k": "close"}, {"k": "send"}] + tail})
                out.append({**base, "noticed": 3, "calls": [{"k": "recv", "t": "none"}, {"k": "close"}, {"k": "iter", "t": "zero"},
                                                            {"k": "iter", "t": "pos"}] + tail})
                out.append({**base, "noticed": 1, "calls": [{"k": "recv", "t": "zero"}, {"k": "send"}, {"k": "close"}, {"k": "send"},
                                                            {"k": "send"}, {"k": "recv", "t": "zero"}, {"k": "iter", "t": "pos"}] + tail})
                # small reads: only part of the burst is in the consumer when the connection is lost
                out.append({**base, "maxrecv": 3, "noticed": 3, "events": [["data", "410a420a"], ["data", "430a440a"], ["eof"]],
                            "calls": [{"k": "recv", "t": "none"}, {"k": "close"}, {"k": "send"}] + tail})
    # TLS receive paths (round 5): the peer ends the stream with / without close_notify / with a reset - between packets, inside
    # a frame, inside a TLS record, before any data; every complete packet first, then the end REPORTED (never a hang), again
    # at every later call
    tail3 = [{"k": "recv", "t": "none"}] * 3
    mixed = [{"k": "recv", "t": "none"}, {"k": "recv", "t": "zero"}, {"k": "recv", "t": "pos"}] + tail3 + tail3
    for layer in ("endpoint", "client"):
        for sc in (True, False):
            for path in ("copy", "buffered"):
                base = {"api": "atls", "layer": layer, "spec": lf, "path": path, "maxrecv": 16384, "tls": "1.3", "sc": sc,
                        "ignore_eof": False, "wire": [7, 300], "cut": None, "close_inside": False, "calls": mixed}
                two = [["data", "410a420a"], ["data", "430a"]]
                out.append({**base, "events": two, "end": "ragged"})                                        # between packets
                out.append({**base, "events": two + [["data", "44"]], "end": "ragged", "close_inside": True})  # inside a frame
                out.append({**base, "events": two, "end": "ragged", "cut": [1, 500]})                       # inside a TLS record
                out.append({**base, "events": [], "end": "ragged", "cut": [0, 0]})                          # before any data
                out.append({**base, "events": two, "end": "notify", "tls": "1.2"})
                out.append({**base, "events": two, "end": "reset", "cut": [1, 0]})
                out.append({**base, "events": two, "end": "ragged", "delays": [0, 6.0], "wire": [65536],
                            "calls": [{"k": "recv", "t": "pos"}] * 4 + tail3 + tail3})                      # late arrivals
                if layer == "client":
                    out.append({**base, "events": two, "end": "ragged",
                                "calls": [{"k": "iter", "t": "none"}] + tail3})
    for api in tls.LOOPBACK:
        for sc in (True, False):
            for path in ("copy", "buffered"):
                base = {"api": api, "spec": lf, "path": path, "maxrecv": 16384, "tls": "1.3", "sc": sc, "ignore_eof": False,
                        "cut": None, "noticed": 3, "close_inside": False, "events": [["data", "410a420a"], ["data", "430a44"]],
                        "calls": [{"k": "recv", "t": "none"}, {"k": "recv", "t": "zero"}, {"k": "iter", "t": "zero"}] + tail3 + tail3}
                out.append({**base, "end": "ragged", "close_inside": True})
                out.append({**base, "end": "notify", "close_inside": True})
                out.append({**base, "end": "ragged", "cut": [0, 0], "noticed": 0})
            out.append({**base, "end": "rst"})
    # several threads on one blocking client: A parked in recv_packet() with a part of a frame, B (C) come with bounded calls
    stream = "68656c6c6f0a776f726c640a780a"          # hello\n world\n x\n
    for path in ("copy", "buffered"):
        base = {"api": "tcpmt", "spec": lf, "path": path, "maxrecv": 16384, "events": [["data", stream], ["eof"]],
                "feeds": [3, 5], "close_inside": False, "calls": []}
        for nth, plan in ((2, [["feed"], ["park", "none"], ["call", "recv", "zero"], ["feed"], ["close"]]),
                          (2, [["feed"], ["park", "none"], ["call", "iter", "zero"], ["feed"], ["close"]]),
                          (2, [["feed"], ["park", "long"], ["call", "recv", "small"], ["feed"], ["close"]]),
                          (2, [["park", "none"], ["call", "recv", "zero"], ["call", "iter", "small"], ["feed"], ["feed"], ["close"]]),
                          (3, [["feed"], ["park", "none"], ["call", "recv", "small"], ["park", "none"], ["feed"], ["close"]]),
                          (3, [["feed"], ["park", "none"], ["race", "recv", "small"], ["feed"], ["park", "long"],
                               ["call", "iter", "zero"], ["close"]])):
            out.append({**base, "nthreads": nth, "plan": plan})
    # interrupted receives on the REAL asyncio transport (round 7): a receive parked on the empty transport is interrupted in the
    # event-loop turn in which its data arrives (I/O callback first, then the timer / the cancellation; the reader wakes up in
    # the next turn), then more receives: A, B, C, D exactly once, in order, then the end
    for layer in ("endpoint", "client"):
        for path in ("copy", "buffered"):
            base = {"api": "aint", "layer": layer, "spec": lf, "path": path, "maxrecv": 16384, "ndrain": 8, "close_inside": False,
                    "events": [["data", "410a420a430a440a"], ["eof"]], "calls": []}
            for mech in ai.MECHS:
                for order in ("io-first", "zero", "eof"):
                    out.append({**base, "plan": [{"k": "recv", "mech": mech, "order": order, "feed": 2, "park": 6},
                                                 {"k": "recv", "mech": mech, "order": "after", "feed": 1, "park": 6},
                                                 {"k": "recv", "mech": mech, "order": order, "feed": 3, "park": 2}]})
            out.append({**base, "plan": [{"k": "recv", "mech": "cancel", "order": "cancel-first", "feed": 2, "park": 6},
                                         {"k": "recv", "mech": "timeout", "order": "before", "feed": 3, "park": 6},
                                         {"k": "recv", "mech": "scope", "order": "io-first", "feed": 1, "park": 0}]})
            if layer == "client":
                for order in ("io-first", "zero", "eof"):
                    out.append({**base, "plan": [{"k": "iter", "mech": "timeout", "order": order, "feed": 4, "park": 6},
                                                 {"k": "iter", "mech": "timeout", "order": order, "feed": 1, "park": 6}]})
    # asynchronous endpoint: receives under an expired deadline while complete packets are buffered
    for path in ("copy", "buffered"):
        out.append({"spec": crlf, "path": path, "api": "async", "events": [["data", "610d0a620d0a630d0a"], ["data", "640d0a"], ["eof"]],
                    "calls": [{"t": "none"}, {"t": "zero"}, {"t": "zero"}, {"t": "zero"}] + [{"t": "none"}] * 4,
                    "maxrecv": 64, "close_inside": False})
    return out


def generate(rng, tier: str, boost: int):
    n = (2500 if tier == "quick" else 60000) * boost
    for _ in range(n):
        yield _gen_case(rng, rng.choice(["sync", "sync", "async"]))
    for _ in range((40 if tier == "quick" else 400) * boost):
        yield _gen_case(rng, rng.choice(["tcp", "atcp"]))
    for _ in range((200 if tier == "quick" else 2000) * boost):
        yield _gen_mid_case(rng, rng.choice(["tcp", "atcp", "atcp"]))
    for _ in range((500 if tier == "quick" else 6000) * boost):
        yield _gen_tls_case(rng, False)
    for _ in range((60 if tier == "quick" else 600) * boost):
        yield _gen_tls_case(rng, True)
    for _ in range((120 if tier == "quick" else 1200) * boost):
        yield _gen_mt_case(rng)
    for _ in range((260 if tier == "quick" else 3000) * boost):
        yield _gen_aint_case(rng)


def after_batch() -> None:
    _aux.clear()
