"""
C20 — Sending applies backpressure and never hangs on a dead connection.

real run : (targets wfc / stream / dgram_ep / dgram_ls) the real WriteFlowControl, StreamReaderBufferedProtocol +
           AsyncioTransportStreamSocketAdapter, DatagramEndpoint(+Protocol), DatagramListenerSocketAdapter(+Protocol) with
           several concurrent sender tasks on a deterministic loop; the harness plays the asyncio transport / the kernel
           (vlib/c20_drive.py): partial kernel acceptance, pause/resume, connection loss with and without error, close,
           cancellation of individual senders, in every order;
           (target sock) the real adapter over the real asyncio selector transport on a socketpair whose peer stops
           reading, then reads again or closes;
           (targets tls_sock / tls_mem, vlib/c20_tls.py) the TLS twin: 1 … 6 concurrent senders on ONE AsyncTLSStreamTransport
           over the real adapter on a socketpair (small SO_SNDBUF, independent stdlib-ssl peer driven between loop turns)
           or over an in-memory transport with the adapter's semantics; the peer stops reading, senders are cancelled /
           time out (the owner of the TLS send lock or a queued one), the connection is reset, the transport is closed.
model run: the same event list through the Lean model (endriver `fc`): flow control + sender tasks + write-buffer machine.
oracle   : a send that returns has its bytes out of the user-space buffer (datagram: at most the transport's high-water
           mark queued); parked senders are all resumed when writing resumes, all end when the connection is lost, a
           cancelled sender is the only one cancelled, nobody stays parked once the peer reads again.
           TLS targets (oracle only): a send that returns has its records out of user space (outgoing BIO + write buffer);
           cancelling any sender strands nobody; after a connection loss every suspended sender ends and the ones with bytes
           in user space do not return normally; the peer gets whole packets in ssl.write order (scoping: docs/C20.md).
"""
from __future__ import annotations

import re
from typing import Any

from vlib import c20_drive as drv
from vlib import core

ID = "C20"
CLAIMED = True
TITLE = "Sending applies backpressure and never hangs on a dead connection"
REQUIRED_THEOREMS = ["C20_returns_only_when_flushed", "C20_waiter_implies_paused", "C20_all_resumed",
                     "C20_all_failed_on_loss", "C20_cancel_one_keeps_others", "C20_no_lost_wakeup"]
LEVEL_TEXT = (
    "Machine-checked proof (Lean 4) that in the model of WriteFlowControl + sender tasks + the transport's write-buffer "
    "machine, for every interleaving of sends, kernel progress, pause/resume, connection loss, close, cancellations and "
    "loop turns: a send_all / send_all_from_iterable that returns has all its bytes out of the user-space buffer; a pending "
    "drain waiter implies writing is paused and the connection alive; resume wakes every waiter, connection loss fails "
    "every waiter, cancelling one sender changes nothing for the others; plus differential correspondence of the model "
    "against the real classes and a direct oracle, including runs on a real socketpair whose peer stops reading."
)
LEVEL_NOTE = (
    "Trusted: Lean kernel; axioms propext, Quot.sound, Classical.choice only. asyncio's selector-transport write path is "
    "assumed behaviour: transcribed in the harness' fake transports (which reuse CPython's _FlowControlMixin) and in the "
    "model; whether writelines() runs the pause check is probed on the interpreter at every run. The flushed-on-return "
    "theorem needs `writelines pauses` or the adapter re-asserting the buffer limits (docs/C20-fix-1.patch); the check "
    "probes both facts and the oracle fails when neither holds. Datagram transports keep asyncio's default 64 KiB "
    "high-water mark: for them 'handed to the OS' is judged up to that bound. Kernel socket buffers are the OS's."
)
TECHNIQUE = ("Lean 4 theorems (inductive invariants over the flow-control / sender / write-buffer step machine) + model/code "
             "differential correspondence + property oracle on the real code (fake and real transports)")
TRUSTED_BASE = [
    "Lean 4.33.0 kernel; axioms allowed: propext, Classical.choice, Quot.sound",
    "hand-written model EasyNet/Model/FlowCtl.lean of _asyncio/_flow_control.py, the send paths of _asyncio/stream/socket.py, "
    "_asyncio/datagram/endpoint.py, _asyncio/datagram/listener.py, of CPython 3.12 Task/Future semantics and of the asyncio "
    "selector transports' write path (assumed behaviour), tied by this check (sampled)",
    "harness: deterministic loop, fake transports built on asyncio.transports._FlowControlMixin, canonicaliser, endriver parser",
    "environment fact probed at run time: does _SelectorSocketTransport.writelines() call _maybe_pause_protocol()",
    "TLS targets: proxy around ssl.SSLObject (write() only notes offsets), pass-through counter around the adapter, "
    "in-memory transport with the adapter's accept-then-drain semantics, stdlib-ssl peer driven by the harness; "
    "AF_UNIX socketpair + asyncio selector transport, single thread (no timing)",
]
ASSUMPTIONS = [
    "stream transports: write-buffer limits are (0, 0) as set by the adapter's constructor; datagram transports: asyncio defaults (64 KiB / 16 KiB)",
    "C20_returns_only_when_flushed: no pause_writing/resume_writing calls other than the transport's own, and "
    "(writelines pauses or the adapter re-asserts the limits)",
    "a sender id is used by one task at a time",
    "TLS targets are judged by the oracle only (no model run). Two behaviours of the unchanged TLS layer with >= 3 "
    "concurrent senders (a queued sender whose records were inside ANOTHER sender's failed / cancelled flush returns "
    "normally) are outside the scope of C20 (stated for the asyncio transports): counted in "
    "coverage.tls_observed_outside_scope, not judged (docs/C20.md)",
]
RULE = (
    "case = target x number of senders x event list (send/sendv/drain/pause/resume/kernel/lost/fail/close/cancel/turn, <= 16) "
    "+ finishing events; non-trivial = at least one sender parked on a drain waiter, classed by what ended the wait "
    "(resume, kernel progress, loss, cancel) and by target; sock case = ops on a real socketpair; tls case = target "
    "(tls_sock / tls_mem) x TLS version x role x optional reader x ops (send / sendv by 1 … 6 tasks, optionally inside "
    "timeout / move_on_after scopes, cancel, advance, peer-read [k], peer-send, peer-close, aclose, turn), non-trivial = at "
    "least one sender suspended across a turn, classed by the number suspended (1, 2, 3, more) and the disturbances; "
    "distinct by case digest"
)

_aux: dict[str, Any] = {}
TLS_TARGETS = ("tls_sock", "tls_mem")
# shapes seen on the unchanged library that are outside the scope of C20 (see docs/C20.md): counted for the evidence file
OBSERVED: dict[str, int] = {"A ok-after-loss, records inside another sender's failed flush": 0,
                            "B early-return after another sender's cancelled flush": 0}


def _env() -> tuple[int, int]:
    return drv.probe_writelines_pauses(), drv.probe_reassert()


# ----------------------------------------------------------------------------------------------
def run_real(case: dict) -> list[str]:
    if case["target"] in TLS_TARGETS:
        from vlib import c20_tls
        return c20_tls.run_tls(case)
    if case["target"] == "sock":
        r = drv.SockRun()
        try:
            for op in case["ops"]:
                r.op(op)
            r.finish()
            lines = list(r.lines)
            if r.loop.unhandled:
                lines.append("unhandled " + "|".join(r.loop.unhandled))
            return lines
        finally:
            r.close()
    r = drv.FlowRun(case["target"], case["n"])
    try:
        for ev in case["events"]:
            r.event(ev)
        r.finish()
        lines = list(r.lines)
        if r.loop.unhandled:
            lines.append("unhandled " + "|".join(r.loop.unhandled))
        _aux[core.case_digest(case)] = {"executed": list(r.executed)}
        return lines
    finally:
        r.close()


def _ev_line(ev: list) -> str:
    if ev[0] == "sendv":
        return f"sendv {ev[1]} " + ",".join(str(x) for x in ev[2])
    return " ".join(str(x) for x in ev)


def model_input(case: dict, real: list[str]):
    if case["target"] == "sock" or case["target"] in TLS_TARGETS:
        return None
    aux = _aux.get(core.case_digest(case))
    if aux is None:
        return None
    wlp, re_ = _env()
    tgt = case["target"]
    kind = {"wfc": "wfc", "stream": "stream", "dgram_ep": "dgram", "dgram_ls": "dgram"}[tgt]
    errno = 104 if tgt == "stream" else 103
    high = 0 if tgt == "stream" else drv.DGRAM_HIGH
    low = 0 if tgt == "stream" else drv.DGRAM_HIGH // 4
    return f"fc {kind} {case['n']} {errno} {wlp} {re_} {high} {low}", [_ev_line(ev) for ev in aux["executed"]]


def real_for_diff(case: dict, real: list[str]) -> list[str]:
    return [ln for ln in real if not ln.startswith("unhandled")]


# ----------------------------------------------------------------------------------------------
_ST = re.compile(r"st (?:paused=(\d) )?parked=(\S+)")


def _blocks(real: list[str]) -> list[tuple[list[str], int, set[int]]]:
    """per executed event: (lines, paused, parked set)"""
    res, cur = [], []
    for ln in real:
        m = _ST.match(ln)
        if m:
            parked = set() if m.group(2) == "-" else {int(x) for x in m.group(2).split(",")}
            res.append((cur, int(m.group(1) or 0), parked))
            cur = []
        else:
            cur.append(ln)
    return res


def oracle(case: dict, real: list[str]) -> str | None:
    for ln in real:
        if ln.startswith("harness-exc") or ln.startswith("unhandled"):
            return ln
    if case["target"] in TLS_TARGETS:
        return _oracle_tls(case, real)
    blocks = _blocks(real)
    stream = case["target"] in ("stream", "sock")
    # O1: a send that returned has its bytes out of user space (datagram: within the high-water mark).
    # Not judged when the harness itself called pause_writing()/resume_writing(): a transport that lies about its
    # buffer can make any sender return.
    direct = any(ev[0] in ("pause", "resume") for ev in case.get("events", []))
    for lines, _, _ in ([] if direct else blocks):
        for ln in lines:
            m = re.match(r"done (\d+) ok pend=(\d+)", ln)
            if m:
                pend = int(m.group(2))
                if stream and pend != 0:
                    return f"send {m.group(1)} returned with {pend} of its bytes still in the user-space write buffer"
                if not stream and pend > drv.DGRAM_HIGH:
                    return f"datagram send {m.group(1)} returned with {pend} bytes queued (> high-water {drv.DGRAM_HIGH})"
    # O5: nobody parked at the end (the peer reads everything / writing resumed)
    if blocks and blocks[-1][2]:
        return f"senders {sorted(blocks[-1][2])} still parked at the end although writing resumed / the peer read everything"
    if case["target"] == "sock":
        # peer closed while senders were parked: they must have ended with a connection error or cancellation
        return _oracle_sock(case, blocks)
    evs = (_aux.get(core.case_digest(case)) or {}).get("executed") or \
        (case["events"] + (drv.FINISH_DIRECT if (direct or case["target"] == "wfc") else drv.FINISH))
    if len(evs) != len(blocks):
        return f"harness: {len(evs)} events but {len(blocks)} state lines"
    cancelled_targets: set[int] = set()
    age: dict[int, int] = {}  # turns survived while parked
    watch: list[tuple[int, set[int], str]] = []  # (turns left, senders, reason)
    started_after_loss: set[int] = set()
    lost_direct = False
    prev_paused = 0
    for (ev, (lines, paused, parked)) in zip(evs, blocks):
        k = ev[0]
        if k == "cancel":
            cancelled_targets.add(ev[1])
        if k in ("send", "sendv", "drain") and lines and lines[0] == "start":
            age[ev[1]] = 0
            cancelled_targets.discard(ev[1])
            if lost_direct:
                started_after_loss.add(ev[1])
        for ln in lines:
            m = re.match(r"done (\d+) (\S+)", ln)
            if m:
                i, res = int(m.group(1)), m.group(2)
                # O4: cancellation hits only its target
                if res == "cancelled" and i not in cancelled_targets:
                    return f"sender {i} ended cancelled but was never cancelled"
                # O3b: a send started after connection_lost() never succeeds
                if i in started_after_loss and res == "ok":
                    return f"sender {i} started after the connection was lost and returned normally"
                age.pop(i, None)
                started_after_loss.discard(i)
                for _, who, _ in watch:
                    who.discard(i)  # it ended: a later task may reuse the id
        settled = {i for i in parked if age.get(i, 0) >= 2}
        if k == "turn":
            for i in parked:
                age[i] = age.get(i, 0) + 1
            nw = []
            for left, who, why in watch:
                left -= 1
                if left <= 0:
                    still = who & parked
                    if still:
                        return f"senders {sorted(still)} still parked after {why}"
                else:
                    nw.append((left, who, why))
            watch = nw
        # O2: writing resumed -> every settled waiter is resumed at the next turn
        if prev_paused == 1 and paused == 0 and k in ("resume", "kernel") and settled:
            watch.append((1, set(settled), f"writing resumed ({k})"))
        # O3: connection lost -> every settled waiter ends
        if k == "lost" and settled:
            watch.append((1, set(settled), "connection_lost()"))
        if k == "fail" and settled:
            watch.append((2, set(settled), "fatal transport error"))
        if k == "lost":
            lost_direct = True
        prev_paused = paused
    return None


def _oracle_sock(case: dict, blocks) -> str | None:
    closed = False
    for op, (lines, _, parked) in zip(case["ops"], blocks):
        if op[0] == "peer-close":
            closed = True
    if closed:
        # after the close every sender that was started ended (O5 above) — and none of them may report success for bytes
        # the peer never read *after* the close was noticed; success before is legitimate.  Nothing more to judge here.
        return None
    return None


# ----------------------------------------------------------------------------------------------
# TLS twin (vlib/c20_tls.py): several senders on one AsyncTLSStreamTransport, oracle only
# ----------------------------------------------------------------------------------------------
def _tls_blocks(real: list[str]) -> list[tuple[list[str], list[str], int]]:
    """per op (then one block for finish): (lines, tasks in flight, user-space queue)"""
    res, cur = [], []
    for ln in real:
        m = re.match(r"st parked=(\S+) uq=(\d+)", ln)
        if m:
            res.append((cur, [] if m.group(1) == "-" else m.group(1).split(","), int(m.group(2))))
            cur = []
        else:
            cur.append(ln)
    return res


def _oracle_tls(case: dict, real: list[str]) -> str | None:
    if real and real[0].startswith("handshake-failed"):
        return "the TLS handshake did not complete: " + real[0]
    ops = case["ops"]
    blocks = _tls_blocks(real)
    if len(blocks) != len(ops) + 1:
        return f"harness: {len(ops)} ops but {len(blocks)} state lines"
    cancel_t: set[str] = set()
    scope_t: dict[str, str] = {}
    atloss: dict[str, str] = {}
    lost = closed = False
    disturbed = False               # a sender ended otherwise than `ok`: its records may legitimately stay behind
    for op, (lines, _, _) in zip(ops + [["finish"]], blocks):
        k = op[0]
        started = "start" in lines
        if k in ("send", "sendv") and started:
            i = str(op[1])
            cancel_t.discard(i)
            scope_t.pop(i, None)
            atloss.pop(i, None)
            if len(op) >= 5:
                scope_t[i] = op[3]
            if lost:
                atloss[i] = "unstarted"
        if k == "cancel":
            cancel_t.add(str(op[1]))
        if k == "peer-close":
            lost = True
        if k == "aclose":
            closed = True
        for ln in lines:
            m = re.match(r"atloss (\S+) pend=(\S+)", ln)
            if m:
                atloss[m.group(1)] = m.group(2)
                continue
            m = re.match(r"done (\S+) (.*)", ln)
            if not m:
                continue
            i, res = m.group(1), m.group(2)
            if i in ("r", "c"):
                continue
            if not res.startswith("ok"):
                disturbed = True
            # O4: cancellation / a timeout hits only its target
            if res == "cancelled" and i not in cancel_t:
                return f"sender {i} ended cancelled but was never cancelled"
            if res in ("timeout", "movedon") and scope_t.get(i) != {"timeout": "timeout", "movedon": "moveon"}[res]:
                return f"sender {i} ended with `{res}` but had no such scope"
            if res.startswith("err ") and not lost and not closed:
                return f"sender {i} failed ({res}) although the connection is alive and nobody closed the transport"
            mo = re.match(r"ok pend=(\d+) lost=(\d) closed=(\d) where=(\S+)", res)
            if mo:
                pend = int(mo.group(1))
                wh = mo.group(4)
                where = {"bio": "still in the outgoing BIO",
                         "inflight-flush:own": "inside its own send_all() of the wrapped transport, still in progress",
                         "inflight-flush:other": "inside a send_all() of the wrapped transport that is still in progress",
                         "cancelled-flush:other": "inside a send_all() of the wrapped transport (another sender's flush) that was cancelled",
                         "failed-flush:other": "inside a send_all() of the wrapped transport (another sender's flush) that failed",
                         "failed-flush:own": "inside its OWN send_all() of the wrapped transport, which failed",
                         }.get(wh, wh)
                # Outside the scope of C20 (TLS layer; docs/C20.md "observed on the unchanged library"): the records of a
                # QUEUED sender had been handed to the wrapped transport by ANOTHER sender's flush, and that flush was
                # cancelled (B) or failed (A): the queued sender finds the BIO empty and returns.  Counted, not judged.
                al = atloss.get(i)
                if wh == "cancelled-flush:other" and (pend or (al is not None and al != "0")):
                    OBSERVED["B early-return after another sender's cancelled flush"] += 1
                    continue
                if wh == "failed-flush:other" and al is not None and al != "0":
                    OBSERVED["A ok-after-loss, records inside another sender's failed flush"] += 1
                    continue
                # O1: a send that returns has its records out of user space (outgoing BIO + adapter write buffer)
                if pend and mo.group(2) == "0" and mo.group(3) == "0":
                    return (f"TLS send {i} returned with {pend} bytes of its records still in user space (outgoing BIO / "
                            f"write buffer of the wrapped transport) while the peer is not reading; its last record is {where}")
                # O3: suspended with bytes in user space when the connection was lost -> never success
                if al is not None and al != "0":
                    what = ("had not started" if al == "unstarted" else f"was suspended with {al} bytes of its records still in user space")
                    return (f"sender {i} {what} when the connection was lost, and returned normally instead of failing "
                            f"with a connection error; its last record is {where}")
            if res.startswith("err ") and res != "err conn":
                al = atloss.get(i)
                if al is not None and al not in ("0", "unstarted"):
                    return (f"sender {i} was suspended when the connection was lost and failed with `{res}` "
                            "instead of a connection error")
    # O5: nobody is left suspended once the peer has read everything / the connection is lost
    _, parked, uq = blocks[-1]
    senders = [p for p in parked if p != "c"]
    if senders:
        why = ("the connection was lost (hanging on a dead connection)" if lost else
               "the peer read everything" + (" (stranded by the cancellation of another sender)" if cancel_t or scope_t else ""))
        return f"senders {senders} still suspended at the end although {why}"
    if "c" in parked:
        return "aclose() still suspended at the end (shutdown timeout elapsed, peer read everything)"
    # what the peer got: the bytes written, in ssl.write order; the whole packet of every sender that returned normally
    for ln in real:
        if ln.startswith("peer received="):
            kv = dict(w.split("=", 1) for w in ln.split()[1:])
            if kv["prefix"] != "1":
                return "the peer decrypted bytes that are not the bytes written (in ssl.write order)"
            if kv["error"] not in ("-", "closed") and not lost:
                return f"the peer failed to decrypt the stream: {kv['error']}"
        if ln.startswith("peer missing-of-ok ") and ln.split()[2] != "-":
            return ("the peer read everything but did not get the whole packet of sender(s) that returned normally: "
                    + ln.split()[2])
    if not lost and not closed and not disturbed and uq:
        return f"every sender returned normally but {uq} bytes are still in user space (outgoing BIO / write buffer)"
    return None


def _nontrivial_tls(case: dict, real: list[str]) -> str | None:
    blocks = _tls_blocks(real)
    most = 0
    for op, (lines, parked, _) in zip(case["ops"], blocks):
        if op[0] == "turn":
            most = max(most, len([p for p in parked if p not in ("c",)]))
    if most == 0:
        return None
    kinds = sorted({op[0] for op in case["ops"] if op[0] in ("cancel", "peer-close", "aclose", "advance", "peer-read")})
    return f"{case['target']}/parked{min(most, 3)}{'+' if most > 3 else ''}/" + "+".join(kinds or ["plain"])


def _shrink_tls(case: dict):
    ops = case["ops"]
    for i in range(len(ops)):
        yield {**case, "ops": ops[:i] + ops[i + 1:]}
    if case.get("reader"):
        yield {**case, "reader": False}
    if case.get("ver", "1.3") != "1.3":
        yield {**case, "ver": "1.3"}
    if case.get("role", "client") != "client":
        yield {**case, "role": "client"}
    if case["target"] != "tls_mem":
        yield {**case, "target": "tls_mem"}
    for i, op in enumerate(ops):
        if op[0] in ("send", "sendv") and len(op) >= 5:
            yield {**case, "ops": ops[:i] + [op[:3]] + ops[i + 1:]}
        if op[0] == "sendv":
            yield {**case, "ops": ops[:i] + [["send", op[1], sum(op[2])] + op[3:]] + ops[i + 1:]}
        if op[0] == "send" and op[2] > 1:
            for m in (1, 1000, op[2] // 2):
                if m < op[2]:
                    yield {**case, "ops": ops[:i] + [["send", op[1], m] + op[3:]] + ops[i + 1:]}


def _tls_corpus() -> list[dict]:
    big = {"tls_sock": 300000, "tls_mem": 20000}
    cs: list[dict] = []
    for tgt in ("tls_sock", "tls_mem"):
        b = big[tgt]
        # N senders behind a peer that does not read: nobody returns; then the peer reads: everybody does, whole packets
        for n in (3, 4, 6):
            cs.append({"target": tgt, "ops": [["send", 0, b], ["turn"], ["turn"]] +
                       [["send" if i % 2 else "sendv", i, 512 if i % 2 else [300, 212]] for i in range(1, n)] +
                       [["turn"], ["turn"], ["turn"]],
                       "note": f"{n} concurrent TLS senders, peer not reading: owner parked in the wrapped transport, the others "
                               "behind the send lock; none may return before its records left user space"})
        # all started in the same loop turn
        cs.append({"target": tgt, "ops": [["send", i, b if i == 0 else 1000] for i in range(5)] + [["turn"], ["turn"], ["turn"]]})
        # the lock owner is cancelled / times out while others are queued behind it
        cs.append({"target": tgt, "ops": [["send", 0, b], ["turn"], ["send", 1, 512], ["send", 2, 512], ["turn"], ["turn"],
                                           ["cancel", 0], ["turn"], ["turn"]],
                   "note": "cancel the owner of the TLS send lock (suspended in the wrapped transport): the queued senders must "
                           "complete once the peer reads"})
        cs.append({"target": tgt, "ops": [["send", 0, b, "timeout", 5], ["turn"], ["sendv", 1, [100, 100]], ["send", 2, 1], ["turn"],
                                           ["advance", 6], ["turn"], ["turn"], ["turn"]]})
        cs.append({"target": tgt, "ops": [["send", 0, b, "moveon", 5], ["turn"], ["send", 1, 100], ["turn"],
                                           ["advance", 6], ["turn"], ["turn"], ["aclose"], ["turn"]]})
        # a queued sender (not the owner) is cancelled
        cs.append({"target": tgt, "ops": [["send", 0, b], ["turn"], ["send", 1, 512], ["send", 2, 512], ["send", 3, 512], ["turn"],
                                           ["cancel", 1], ["turn"], ["cancel", 2], ["turn"]]})
        # the connection is lost while the owner is suspended and another sender is queued
        cs.append({"target": tgt, "ops": [["send", 0, b], ["turn"], ["send", 1, 512], ["turn"], ["turn"], ["peer-close"],
                                           ["turn"], ["turn"], ["turn"], ["turn"]],
                   "note": "connection reset while the owner of the TLS send lock is suspended and another sender is queued: "
                           "both must fail with a connection error"})
        cs.append({"target": tgt, "reader": True, "ops": [["send", 0, b], ["turn"], ["send", 1, 512], ["turn"], ["peer-read", 3000],
                                                          ["turn"], ["peer-close"], ["turn"], ["turn"], ["send", 1, 5], ["turn"]]})
        # close while senders are suspended
        cs.append({"target": tgt, "ops": [["send", 0, b], ["turn"], ["send", 1, 512], ["turn"], ["aclose"], ["turn"], ["turn"]]})
    return cs


def _gen_tls(rng) -> dict:
    tgt = rng.choice(["tls_sock", "tls_sock", "tls_mem"])
    n = rng.choice([1, 2, 3, 3, 4, 4, 5, 6])
    big = [100000, 200000, 300000] if tgt == "tls_sock" else [6000, 20000, 70000]
    small = [1, 100, 1000, 5000]
    ops: list[list] = []

    def start(i: int, first: bool) -> list:
        pool = big if (first or rng.random() < 0.2) else small
        if rng.random() < 0.6:
            op: list = ["send", i, rng.choice(pool)]
        else:
            op = ["sendv", i, [rng.choice(pool if j == 0 else small) for j in range(rng.randint(1, 3))]]
        r = rng.random()
        if r < 0.10:
            op += ["timeout", rng.choice([1, 5])]
        elif r < 0.20:
            op += ["moveon", rng.choice([1, 5])]
        return op

    ids = list(range(n))
    rng.shuffle(ids)
    burst = rng.random() < 0.3                  # everybody starts in the same loop turn
    for j, i in enumerate(ids):
        ops.append(start(i, j == 0))
        if not burst:
            for _ in range(rng.choice([0, 1, 1, 2])):
                ops.append(["turn"])
    for _ in range(rng.randint(1, 3)):
        ops.append(["turn"])
    owner = ids[0]
    for _ in range(rng.randint(0, 7)):
        r = rng.random()
        if r < 0.22:
            ops.append(["cancel", owner if rng.random() < 0.5 else rng.choice(ids)])
        elif r < 0.32:
            ops.append(["advance", rng.choice([1, 2, 6])])
        elif r < 0.47:
            ops.append(["peer-read", rng.choice([1000, 5000, 20000, 100000])] if rng.random() < 0.7 else ["peer-read"])
        elif r < 0.57:
            ops.append(["peer-close"])
        elif r < 0.65:
            ops.append(start(rng.choice(ids), False))
        elif r < 0.70:
            ops.append(["aclose"])
        elif r < 0.74:
            ops.append(["peer-send", rng.choice([1, 1000])])
        else:
            ops.append(["turn"])
        if rng.random() < 0.5:
            ops.append(["turn"])
    case = {"target": tgt, "ver": rng.choice(["1.3", "1.3", "1.2"]), "role": rng.choice(["client", "client", "server"]),
            "ops": ops}
    if rng.random() < 0.4:
        case["reader"] = True
    return case


def nontrivial(case: dict, real: list[str]) -> str | None:
    if case["target"] in TLS_TARGETS:
        return _nontrivial_tls(case, real)
    blocks = _blocks(real)
    ever_parked_two_turns = False
    age: dict[int, int] = {}
    evs = case.get("events") or case.get("ops")
    why = set()
    for idx, (lines, paused, parked) in enumerate(blocks):
        ev = evs[idx] if idx < len(evs) else ["finish"]
        if ev[0] == "turn":
            for i in list(age):
                if i not in parked:
                    del age[i]
            for i in parked:
                age[i] = age.get(i, 0) + 1
                if age[i] >= 2:
                    ever_parked_two_turns = True
        if any(a >= 1 for a in age.values()):
            if ev[0] in ("resume", "kernel", "lost", "fail", "cancel", "close", "peer-read", "peer-close"):
                why.add(ev[0])
    if not ever_parked_two_turns:
        return None
    return f"{case['target']}/" + "+".join(sorted(why) or ["parked"])


def shrink(case: dict):
    if "note" in case:
        case = {k: v for k, v in case.items() if k != "note"}
        yield case
    if case["target"] in TLS_TARGETS:
        yield from _shrink_tls(case)
        return
    key = "ops" if case["target"] == "sock" else "events"
    evs = case[key]
    for i in range(len(evs)):
        yield {**case, key: evs[:i] + evs[i + 1:]}
    if case["target"] != "sock" and case["n"] > 1:
        used = {ev[1] for ev in evs if ev[0] in ("send", "sendv", "drain", "cancel")}
        if max(used, default=0) < case["n"] - 1:
            yield {**case, "n": case["n"] - 1}
    for i, ev in enumerate(evs):
        if ev[0] == "send" and ev[2] > 3:
            yield {**case, key: evs[:i] + [["send", ev[1], 3 if case["target"] in ("stream",) else ev[2] // 2]] + evs[i + 1:]}
        if ev[0] == "sendv" and len(ev[2]) > 1:
            yield {**case, key: evs[:i] + [["sendv", ev[1], ev[2][:1]]] + evs[i + 1:]}


def known_key(case: dict, real: list[str], why: str) -> str:
    if case["target"] in TLS_TARGETS:
        kind = ("unflushed-return" if "still in user space" in why and "returned with" in why
                else "ok-after-loss" if "returned normally instead of failing" in why
                else "stranded" if "still suspended" in why
                else "content" if "the peer" in why else "other")
        where = ("bio" if "still in the outgoing BIO" in why else "inflight-flush" if "still in progress" in why
                 else "cancelled-flush" if "that was cancelled" in why else "failed-flush" if "failed" in why else "")
        return f"target=tls,kind={kind}" + (f",where={where}" if where else "")
    evs = case.get("events") or case.get("ops")
    path = "send_all_from_iterable" if any(e[0] == "sendv" for e in evs) else "other"
    kind = "unflushed-return" if "still in the user-space" in why else "other"
    tgt = "stream" if case["target"] in ("stream", "sock") else case["target"]
    return f"target={tgt},path={path},kind={kind},writelinesPauses={drv.probe_writelines_pauses()}"


# ----------------------------------------------------------------------------------------------
def corpus() -> list[dict]:
    cs: list[dict] = []
    # DESIGN §8-F8: send_all_from_iterable with a peer that reads nothing
    cs.append({"target": "stream", "n": 2, "events": [["sendv", 0, [5, 7]], ["turn"], ["turn"], ["kernel", 4], ["turn"]]})
    cs.append({"target": "stream", "n": 2, "events": [["send", 0, 12], ["turn"], ["turn"], ["kernel", 4], ["turn"], ["kernel", 8], ["turn"]]})
    # second sender arrives while the first is parked; partial progress; both resumed by the emptying buffer
    cs.append({"target": "stream", "n": 3, "events": [["send", 0, 10], ["turn"], ["send", 1, 5], ["sendv", 2, [1, 2]], ["turn"], ["kernel", 12],
                                                       ["turn"], ["kernel", 6], ["turn"]]})
    # waiter resumed, then writing pauses again before it wakes up
    cs.append({"target": "stream", "n": 2, "events": [["send", 0, 4], ["turn"], ["turn"], ["kernel", 4], ["send", 1, 6], ["turn"], ["turn"]]})
    for tgt in ("wfc", "stream", "dgram_ep", "dgram_ls"):
        # several waiters: cancel one, resume the others
        cs.append({"target": tgt, "n": 3, "events": [["pause"], ["drain", 0], ["drain", 1], ["drain", 2], ["turn"], ["turn"], ["cancel", 1], ["turn"],
                                                      ["resume"], ["turn"]]})
        # connection lost with and without exception while waiting; cancel and loss in the same iteration
        cs.append({"target": tgt, "n": 3, "events": [["pause"], ["drain", 0], ["drain", 1], ["turn"], ["turn"], ["cancel", 0], ["lost", 32], ["turn"],
                                                      ["drain", 2], ["turn"], ["turn"]]})
        cs.append({"target": tgt, "n": 2, "events": [["pause"], ["drain", 0], ["turn"], ["turn"], ["lost", 0], ["cancel", 0], ["turn"], ["drain", 1], ["turn"]]})
        # closing transport: drain yields once, then sees the loss
        cs.append({"target": tgt, "n": 2, "events": [["close"], ["drain", 0], ["turn"], ["turn"], ["turn"]]})
    for tgt in ("dgram_ep", "dgram_ls"):
        cs.append({"target": tgt, "n": 3, "events": [["send", 0, 40000], ["send", 1, 40000], ["turn"], ["send", 2, 10], ["turn"], ["turn"],
                                                      ["kernel", 40000], ["turn"], ["fail", 104], ["turn"], ["turn"]]})
        cs.append({"target": tgt, "n": 2, "events": [["send", 0, 70000], ["turn"], ["turn"], ["close"], ["turn"], ["kernel", 70000], ["turn"]]})
    # stream: fatal error / abort / close with unsent data while senders are parked
    cs.append({"target": "stream", "n": 2, "events": [["send", 0, 9], ["send", 1, 9], ["turn"], ["turn"], ["fail", 104], ["turn"], ["turn"]]})
    cs.append({"target": "stream", "n": 2, "events": [["send", 0, 9], ["turn"], ["turn"], ["fail", 0], ["send", 1, 2], ["turn"], ["turn"]]})
    cs.append({"target": "stream", "n": 2, "events": [["send", 0, 9], ["turn"], ["turn"], ["close"], ["send", 1, 2], ["turn"], ["kernel", 20], ["turn"], ["turn"]]})
    # real socket, peer not reading: both send paths, then the peer reads again / closes
    cs.append({"target": "sock", "ops": [["send", 0, 300000], ["turn"], ["turn"], ["turn"]]})
    cs.append({"target": "sock", "ops": [["sendv", 0, [100000, 200000]], ["turn"], ["turn"], ["turn"]]})
    cs.append({"target": "sock", "ops": [["sendv", 0, [300000]], ["send", 1, 1000], ["turn"], ["turn"], ["cancel", 0], ["turn"], ["turn"]]})
    cs.append({"target": "sock", "ops": [["send", 0, 300000], ["sendv", 1, [300000]], ["turn"], ["turn"], ["peer-close"], ["turn"], ["turn"], ["turn"]]})
    cs += _tls_corpus()
    return cs


def _gen_flow(rng) -> dict:
    tgt = rng.choice(["wfc", "stream", "stream", "stream", "dgram_ep", "dgram_ls"])
    n = rng.randint(1, 4)
    evs: list[list] = []
    dg = tgt.startswith("dgram")
    sizes = [10, 1000, 30000, 40000, 70000] if dg else [1, 2, 3, 5, 8, 13]
    direct = rng.random() < (1.0 if tgt == "wfc" else 0.25)

    def start(i):
        if tgt == "wfc" or rng.random() < 0.12:
            return ["drain", i]
        if tgt == "stream" and rng.random() < 0.5:
            return ["sendv", i, [rng.choice(sizes) for _ in range(rng.randint(1, 3))]]
        return ["send", i, rng.choice(sizes[2:] if dg and rng.random() < 0.7 else sizes)]

    if rng.random() < 0.65:
        # scenario: get some senders parked, then disturb them
        if direct:
            evs.append(["pause"])
        elif rng.random() < 0.3:
            evs.append(["kernel", rng.choice(sizes)])
        ids = list(range(n))
        rng.shuffle(ids)
        for i in ids[:rng.randint(1, n)]:
            evs.append(start(i))
            if rng.random() < 0.3:
                evs.append(["turn"])
        for _ in range(rng.randint(1, 3)):
            evs.append(["turn"])
        for _ in range(rng.randint(1, 7)):
            r = rng.random()
            i = rng.randrange(n)
            if r < 0.25 and tgt != "wfc":
                evs.append(["kernel", rng.choice(sizes + [sum(sizes[:3]), sum(sizes)])])
            elif r < 0.40:
                evs.append(["cancel", i])
            elif r < 0.50:
                evs.append(start(i))
            elif r < 0.58 and direct:
                evs.append([rng.choice(["pause", "resume", "resume"])])
            elif r < 0.66:
                evs.append(["lost", rng.choice([0, 32, 104])] if (direct or rng.random() < 0.3) else ["fail", rng.choice([0, 32, 104])])
            elif r < 0.71:
                evs.append(["close"])
            else:
                evs.append(["turn"])
        return {"target": tgt, "n": n, "events": evs}
    nev = rng.randint(3, 16)
    while len(evs) < nev:
        r = rng.random()
        i = rng.randrange(n)
        if r < 0.22:
            evs.append(start(i))
        elif r < 0.50:
            evs.append(["turn"])
        elif r < 0.64 and tgt != "wfc":
            evs.append(["kernel", rng.choice(sizes + [sum(sizes[:3])])])
        elif r < 0.72:
            evs.append(["cancel", i])
        elif r < 0.80 and direct:
            evs.append([rng.choice(["pause", "pause", "resume"])])
        elif r < 0.84:
            evs.append(["lost", rng.choice([0, 32, 104])] if (direct or rng.random() < 0.3) else ["fail", rng.choice([0, 32, 104])])
        elif r < 0.87:
            evs.append(["close"])
        else:
            evs.append(["turn"])
    return {"target": tgt, "n": n, "events": evs}


def _gen_sock(rng) -> dict:
    ops: list[list] = []
    nsend = rng.randint(1, 3)
    for i in range(nsend):
        big = rng.random() < 0.8
        if rng.random() < 0.5:
            ops.append(["send", i, rng.choice([200000, 300000]) if big else rng.choice([10, 1000])])
        else:
            ops.append(["sendv", i, [rng.choice([100000, 150000]) if big else rng.choice([10, 500]) for _ in range(rng.randint(1, 3))]])
        for _ in range(rng.randint(0, 2)):
            ops.append(["turn"])
    for _ in range(rng.randint(1, 3)):
        ops.append(["turn"])
    tail = rng.random()
    if tail < 0.3:
        ops.append(["cancel", rng.randrange(nsend)])
        ops.append(["turn"])
    elif tail < 0.5:
        ops.append(["peer-close"])
        ops += [["turn"], ["turn"], ["turn"]]
    elif tail < 0.7:
        ops.append(["peer-read"])
        ops.append(["turn"])
    return {"target": "sock", "ops": ops}


def _exhaustive_flow():
    import itertools

    wfc = [["drain", 0], ["drain", 1], ["pause"], ["resume"], ["lost", 0], ["lost", 32], ["cancel", 0], ["cancel", 1], ["turn"], ["close"]]
    for ln in range(2, 5):
        for combo in itertools.product(wfc, repeat=ln):
            if combo[0][0] not in ("pause", "drain", "close"):
                continue
            yield {"target": "wfc", "n": 2, "events": [list(e) for e in combo]}
    st = [["send", 0, 3], ["sendv", 1, [2, 2]], ["kernel", 2], ["kernel", 5], ["fail", 104], ["cancel", 0], ["turn"], ["close"]]
    for ln in range(2, 6):
        for combo in itertools.product(st, repeat=ln):
            if combo[0][0] not in ("send", "sendv"):
                continue
            yield {"target": "stream", "n": 2, "events": [list(e) for e in combo]}


def generate(rng, tier: str, boost: int):
    if tier == "thorough" and boost == 1:
        # small-scope enumeration (validation, not the theorem): every list of <= 4 events for 2 bare waiters,
        # every list of <= 5 events for 2 stream senders, over fixed alphabets
        yield from _exhaustive_flow()
    n = (6000 if tier == "quick" else 100000) * boost
    for _ in range(n):
        yield _gen_flow(rng)
    m = (60 if tier == "quick" else 600) * boost
    for _ in range(m):
        yield _gen_sock(rng)
    # the TLS twin: several senders on one AsyncTLSStreamTransport (real adapter on a socketpair / in-memory transport)
    m = (300 if tier == "quick" else 3000) * boost
    for _ in range(m):
        yield _gen_tls(rng)


def extra_coverage(stats) -> dict:
    wlp, re_ = _env()
    return {"environment": {"writelines_runs_pause_check": bool(wlp), "adapter_reasserts_write_limits": bool(re_)},
            "flushed_on_return_theorem_applies": bool(wlp or re_),
            "tls_observed_outside_scope": dict(OBSERVED)}
