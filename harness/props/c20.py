"""
C20 — Sending applies backpressure and never hangs on a dead connection.

real run : (targets wfc / stream / dgram_ep / dgram_ls) the real WriteFlowControl, StreamReaderBufferedProtocol +
           AsyncioTransportStreamSocketAdapter, DatagramEndpoint(+Protocol), DatagramListenerSocketAdapter(+Protocol) with
           several concurrent sender tasks on a deterministic loop; the harness plays the asyncio transport / the kernel
           (vlib/c20_drive.py): partial kernel acceptance, pause/resume, connection loss with and without error, close,
           cancellation of individual senders, in every order;
           (target sock) the real adapter over the real asyncio selector transport on a socketpair whose peer stops
           reading, then reads again or closes.
model run: the same event list through the Lean model (endriver `fc`): flow control + sender tasks + write-buffer machine.
oracle   : a send that returns has its bytes out of the user-space buffer (datagram: at most the transport's high-water
           mark queued); parked senders are all resumed when writing resumes, all end when the connection is lost, a
           cancelled sender is the only one cancelled, nobody stays parked once the peer reads again.
"""
from __future__ import annotations

import re
from typing import Any

from vlib import c20_drive as drv
from vlib import core

ID = "C20"
CLAIMED = True
TITLE = "Sending applies backpressure and never hangs on a dead connection"
REQUIRED_THEOREMS = ["C20_returns_only_when_flushed", "C20_waiter_implies_paused", "C20_all_resumed",
                     "C20_all_failed_on_loss", "C20_cancel_one_keeps_others", "C20_no_lost_wakeup"]
LEVEL_TEXT = (
    "Machine-checked proof (Lean 4) that in the model of WriteFlowControl + sender tasks + the transport's write-buffer "
    "machine, for every interleaving of sends, kernel progress, pause/resume, connection loss, close, cancellations and "
    "loop turns: a send_all / send_all_from_iterable that returns has all its bytes out of the user-space buffer; a pending "
    "drain waiter implies writing is paused and the connection alive; resume wakes every waiter, connection loss fails "
    "every waiter, cancelling one sender changes nothing for the others; plus differential correspondence of the model "
    "against the real classes and a direct oracle, including runs on a real socketpair whose peer stops reading."
)
LEVEL_NOTE = (
    "Trusted: Lean kernel; axioms propext, Quot.sound, Classical.choice only. asyncio's selector-transport write path is "
    "assumed behaviour: transcribed in the harness' fake transports (which reuse CPython's _FlowControlMixin) and in the "
    "model; whether writelines() runs the pause check is probed on the interpreter at every run. The flushed-on-return "
    "theorem needs `writelines pauses` or the adapter re-asserting the buffer limits (docs/C20-fix-1.patch); the check "
    "probes both facts and the oracle fails when neither holds. Datagram transports keep asyncio's default 64 KiB "
    "high-water mark: for them 'handed to the OS' is judged up to that bound. Kernel socket buffers are the OS's."
)
TECHNIQUE = ("Lean 4 theorems (inductive invariants over the flow-control / sender / write-buffer step machine) + model/code "
             "differential correspondence + property oracle on the real code (fake and real transports)")
TRUSTED_BASE = [
    "Lean 4.33.0 kernel; axioms allowed: propext, Classical.choice, Quot.sound",
    "hand-written model EasyNet/Model/FlowCtl.lean of _asyncio/_flow_control.py, the send paths of _asyncio/stream/socket.py, "
    "_asyncio/datagram/endpoint.py, _asyncio/datagram/listener.py, of CPython 3.12 Task/Future semantics and of the asyncio "
    "selector transports' write path (assumed behaviour), tied by this check (sampled)",
    "harness: deterministic loop, fake transports built on asyncio.transports._FlowControlMixin, canonicaliser, endriver parser",
    "environment fact probed at run time: does _SelectorSocketTransport.writelines() call _maybe_pause_protocol()",
]
ASSUMPTIONS = [
    "stream transports: write-buffer limits are (0, 0) as set by the adapter's constructor; datagram transports: asyncio defaults (64 KiB / 16 KiB)",
    "C20_returns_only_when_flushed: no pause_writing/resume_writing calls other than the transport's own, and "
    "(writelines pauses or the adapter re-asserts the limits)",
    "a sender id is used by one task at a time",
]
RULE = (
    "case = target x number of senders x event list (send/sendv/drain/pause/resume/kernel/lost/fail/close/cancel/turn, <= 16) "
    "+ finishing events; non-trivial = at least one sender parked on a drain waiter, classed by what ended the wait "
    "(resume, kernel progress, loss, cancel) and by target; sock case = ops on a real socketpair; distinct by case digest"
)

_aux: dict[str, Any] = {}


def _env() -> tuple[int, int]:
    return drv.probe_writelines_pauses(), drv.probe_reassert()


# ----------------------------------------------------------------------------------------------
def run_real(case: dict) -> list[str]:
    if case["target"] == "sock":
        r = drv.SockRun()
        try:
            for op in case["ops"]:
                r.op(op)
            r.finish()
            lines = list(r.lines)
            if r.loop.unhandled:
                lines.append("unhandled " + "|".join(r.loop.unhandled))
            return lines
        finally:
            r.close()
    r = drv.FlowRun(case["target"], case["n"])
    try:
        for ev in case["events"]:
            r.event(ev)
        r.finish()
        lines = list(r.lines)
        if r.loop.unhandled:
            lines.append("unhandled " + "|".join(r.loop.unhandled))
        _aux[core.case_digest(case)] = {"executed": list(r.executed)}
        return lines
    finally:
        r.close()


def _ev_line(ev: list) -> str:
    if ev[0] == "sendv":
        return f"sendv {ev[1]} " + ",".join(str(x) for x in ev[2])
    return " ".join(str(x) for x in ev)


def model_input(case: dict, real: list[str]):
    if case["target"] == "sock":
        return None
    aux = _aux.get(core.case_digest(case))
    if aux is None:
        return None
    wlp, re_ = _env()
    tgt = case["target"]
    kind = {"wfc": "wfc", "stream": "stream", "dgram_ep": "dgram", "dgram_ls": "dgram"}[tgt]
    errno = 104 if tgt == "stream" else 103
    high = 0 if tgt == "stream" else drv.DGRAM_HIGH
    low = 0 if tgt == "stream" else drv.DGRAM_HIGH // 4
    return f"fc {kind} {case['n']} {errno} {wlp} {re_} {high} {low}", [_ev_line(ev) for ev in aux["executed"]]


def real_for_diff(case: dict, real: list[str]) -> list[str]:
    return [ln for ln in real if not ln.startswith("unhandled")]


# ----------------------------------------------------------------------------------------------
_ST = re.compile(r"st (?:paused=(\d) )?parked=(\S+)")


def _blocks(real: list[str]) -> list[tuple[list[str], int, set[int]]]:
    """per executed event: (lines, paused, parked set)"""
    res, cur = [], []
    for ln in real:
        m = _ST.match(ln)
        if m:
            parked = set() if m.group(2) == "-" else {int(x) for x in m.group(2).split(",")}
            res.append((cur, int(m.group(1) or 0), parked))
            cur = []
        else:
            cur.append(ln)
    return res


def oracle(case: dict, real: list[str]) -> str | None:
    for ln in real:
        if ln.startswith("harness-exc") or ln.startswith("unhandled"):
            return ln
    blocks = _blocks(real)
    stream = case["target"] in ("stream", "sock")
    # O1: a send that returned has its bytes out of user space (datagram: within the high-water mark).
    # Not judged when the harness itself called pause_writing()/resume_writing(): a transport that lies about its
    # buffer can make any sender return.
    direct = any(ev[0] in ("pause", "resume") for ev in case.get("events", []))
    for lines, _, _ in ([] if direct else blocks):
        for ln in lines:
            m = re.match(r"done (\d+) ok pend=(\d+)", ln)
            if m:
                pend = int(m.group(2))
                if stream and pend != 0:
                    return f"send {m.group(1)} returned with {pend} of its bytes still in the user-space write buffer"
                if not stream and pend > drv.DGRAM_HIGH:
                    return f"datagram send {m.group(1)} returned with {pend} bytes queued (> high-water {drv.DGRAM_HIGH})"
    # O5: nobody parked at the end (the peer reads everything / writing resumed)
    if blocks and blocks[-1][2]:
        return f"senders {sorted(blocks[-1][2])} still parked at the end although writing resumed / the peer read everything"
    if case["target"] == "sock":
        # peer closed while senders were parked: they must have ended with a connection error or cancellation
        return _oracle_sock(case, blocks)
    evs = (_aux.get(core.case_digest(case)) or {}).get("executed") or \
        (case["events"] + (drv.FINISH_DIRECT if (direct or case["target"] == "wfc") else drv.FINISH))
    if len(evs) != len(blocks):
        return f"harness: {len(evs)} events but {len(blocks)} state lines"
    cancelled_targets: set[int] = set()
    age: dict[int, int] = {}  # turns survived while parked
    watch: list[tuple[int, set[int], str]] = []  # (turns left, senders, reason)
    started_after_loss: set[int] = set()
    lost_direct = False
    prev_paused = 0
    for (ev, (lines, paused, parked)) in zip(evs, blocks):
        k = ev[0]
        if k == "cancel":
            cancelled_targets.add(ev[1])
        if k in ("send", "sendv", "drain") and lines and lines[0] == "start":
            age[ev[1]] = 0
            cancelled_targets.discard(ev[1])
            if lost_direct:
                started_after_loss.add(ev[1])
        for ln in lines:
            m = re.match(r"done (\d+) (\S+)", ln)
            if m:
                i, res = int(m.group(1)), m.group(2)
                # O4: cancellation hits only its target
                if res == "cancelled" and i not in cancelled_targets:
                    return f"sender {i} ended cancelled but was never cancelled"
                # O3b: a send started after connection_lost() never succeeds
                if i in started_after_loss and res == "ok":
                    return f"sender {i} started after the connection was lost and returned normally"
                age.pop(i, None)
                started_after_loss.discard(i)
                for _, who, _ in watch:
                    who.discard(i)  # it ended: a later task may reuse the id
        settled = {i for i in parked if age.get(i, 0) >= 2}
        if k == "turn":
            for i in parked:
                age[i] = age.get(i, 0) + 1
            nw = []
            for left, who, why in watch:
                left -= 1
                if left <= 0:
                    still = who & parked
                    if still:
                        return f"senders {sorted(still)} still parked after {why}"
                else:
                    nw.append((left, who, why))
            watch = nw
        # O2: writing resumed -> every settled waiter is resumed at the next turn
        if prev_paused == 1 and paused == 0 and k in ("resume", "kernel") and settled:
            watch.append((1, set(settled), f"writing resumed ({k})"))
        # O3: connection lost -> every settled waiter ends
        if k == "lost" and settled:
            watch.append((1, set(settled), "connection_lost()"))
        if k == "fail" and settled:
            watch.append((2, set(settled), "fatal transport error"))
        if k == "lost":
            lost_direct = True
        prev_paused = paused
    return None


def _oracle_sock(case: dict, blocks) -> str | None:
    closed = False
    for op, (lines, _, parked) in zip(case["ops"], blocks):
        if op[0] == "peer-close":
            closed = True
    if closed:
        # after the close every sender that was started ended (O5 above) — and none of them may report success for bytes
        # the peer never read *after* the close was noticed; success before is legitimate.  Nothing more to judge here.
        return None
    return None


def nontrivial(case: dict, real: list[str]) -> str | None:
    blocks = _blocks(real)
    ever_parked_two_turns = False
    age: dict[int, int] = {}
    evs = case.get("events") or case.get("ops")
    why = set()
    for idx, (lines, paused, parked) in enumerate(blocks):
        ev = evs[idx] if idx < len(evs) else ["finish"]
        if ev[0] == "turn":
            for i in list(age):
                if i not in parked:
                    del age[i]
            for i in parked:
                age[i] = age.get(i, 0) + 1
                if age[i] >= 2:
                    ever_parked_two_turns = True
        if any(a >= 1 for a in age.values()):
            if ev[0] in ("resume", "kernel", "lost", "fail", "cancel", "close", "peer-read", "peer-close"):
                why.add(ev[0])
    if not ever_parked_two_turns:
        return None
    return f"{case['target']}/" + "+".join(sorted(why) or ["parked"])


def shrink(case: dict):
    key = "ops" if case["target"] == "sock" else "events"
    evs = case[key]
    for i in range(len(evs)):
        yield {**case, key: evs[:i] + evs[i + 1:]}
    if case["target"] != "sock" and case["n"] > 1:
        used = {ev[1] for ev in evs if ev[0] in ("send", "sendv", "drain", "cancel")}
        if max(used, default=0) < case["n"] - 1:
            yield {**case, "n": case["n"] - 1}
    for i, ev in enumerate(evs):
        if ev[0] == "send" and ev[2] > 3:
            yield {**case, key: evs[:i] + [["send", ev[1], 3 if case["target"] in ("stream",) else ev[2] // 2]] + evs[i + 1:]}
        if ev[0] == "sendv" and len(ev[2]) > 1:
            yield {**case, key: evs[:i] + [["sendv", ev[1], ev[2][:1]]] + evs[i + 1:]}


def known_key(case: dict, real: list[str], why: str) -> str:
    evs = case.get("events") or case.get("ops")
    path = "send_all_from_iterable" if any(e[0] == "sendv" for e in evs) else "other"
    kind = "unflushed-return" if "still in the user-space" in why else "other"
    tgt = "stream" if case["target"] in ("stream", "sock") else case["target"]
    return f"target={tgt},path={path},kind={kind},writelinesPauses={drv.probe_writelines_pauses()}"


# ----------------------------------------------------------------------------------------------
def corpus() -> list[dict]:
    cs: list[dict] = []
    # DESIGN §8-F8: send_all_from_iterable with a peer that reads nothing
    cs.append({"target": "stream", "n": 2, "events": [["sendv", 0, [5, 7]], ["turn"], ["turn"], ["kernel", 4], ["turn"]]})
    cs.append({"target": "stream", "n": 2, "events": [["send", 0, 12], ["turn"], ["turn"], ["kernel", 4], ["turn"], ["kernel", 8], ["turn"]]})
    # second sender arrives while the first is parked; partial progress; both resumed by the emptying buffer
    cs.append({"target": "stream", "n": 3, "events": [["send", 0, 10], ["turn"], ["send", 1, 5], ["sendv", 2, [1, 2]], ["turn"], ["kernel", 12],
                                                       ["turn"], ["kernel", 6], ["turn"]]})
    # waiter resumed, then writing pauses again before it wakes up
    cs.append({"target": "stream", "n": 2, "events": [["send", 0, 4], ["turn"], ["turn"], ["kernel", 4], ["send", 1, 6], ["turn"], ["turn"]]})
    for tgt in ("wfc", "stream", "dgram_ep", "dgram_ls"):
        # several waiters: cancel one, resume the others
        cs.append({"target": tgt, "n": 3, "events": [["pause"], ["drain", 0], ["drain", 1], ["drain", 2], ["turn"], ["turn"], ["cancel", 1], ["turn"],
                                                      ["resume"], ["turn"]]})
        # connection lost with and without exception while waiting; cancel and loss in the same iteration
        cs.append({"target": tgt, "n": 3, "events": [["pause"], ["drain", 0], ["drain", 1], ["turn"], ["turn"], ["cancel", 0], ["lost", 32], ["turn"],
                                                      ["drain", 2], ["turn"], ["turn"]]})
        cs.append({"target": tgt, "n": 2, "events": [["pause"], ["drain", 0], ["turn"], ["turn"], ["lost", 0], ["cancel", 0], ["turn"], ["drain", 1], ["turn"]]})
        # closing transport: drain yields once, then sees the loss
        cs.append({"target": tgt, "n": 2, "events": [["close"], ["drain", 0], ["turn"], ["turn"], ["turn"]]})
    for tgt in ("dgram_ep", "dgram_ls"):
        cs.append({"target": tgt, "n": 3, "events": [["send", 0, 40000], ["send", 1, 40000], ["turn"], ["send", 2, 10], ["turn"], ["turn"],
                                                      ["kernel", 40000], ["turn"], ["fail", 104], ["turn"], ["turn"]]})
        cs.append({"target": tgt, "n": 2, "events": [["send", 0, 70000], ["turn"], ["turn"], ["close"], ["turn"], ["kernel", 70000], ["turn"]]})
    # stream: fatal error / abort / close with unsent data while senders are parked
    cs.append({"target": "stream", "n": 2, "events": [["send", 0, 9], ["send", 1, 9], ["turn"], ["turn"], ["fail", 104], ["turn"], ["turn"]]})
    cs.append({"target": "stream", "n": 2, "events": [["send", 0, 9], ["turn"], ["turn"], ["fail", 0], ["send", 1, 2], ["turn"], ["turn"]]})
    cs.append({"target": "stream", "n": 2, "events": [["send", 0, 9], ["turn"], ["turn"], ["close"], ["send", 1, 2], ["turn"], ["kernel", 20], ["turn"], ["turn"]]})
    # real socket, peer not reading: both send paths, then the peer reads again / closes
    cs.append({"target": "sock", "ops": [["send", 0, 300000], ["turn"], ["turn"], ["turn"]]})
    cs.append({"target": "sock", "ops": [["sendv", 0, [100000, 200000]], ["turn"], ["turn"], ["turn"]]})
    cs.append({"target": "sock", "ops": [["sendv", 0, [300000]], ["send", 1, 1000], ["turn"], ["turn"], ["cancel", 0], ["turn"], ["turn"]]})
    cs.append({"target": "sock", "ops": [["send", 0, 300000], ["sendv", 1, [300000]], ["turn"], ["turn"], ["peer-close"], ["turn"], ["turn"], ["turn"]]})
    return cs


def _gen_flow(rng) -> dict:
    tgt = rng.choice(["wfc", "stream", "stream", "stream", "dgram_ep", "dgram_ls"])
    n = rng.randint(1, 4)
    evs: list[list] = []
    dg = tgt.startswith("dgram")
    sizes = [10, 1000, 30000, 40000, 70000] if dg else [1, 2, 3, 5, 8, 13]
    direct = rng.random() < (1.0 if tgt == "wfc" else 0.25)

    def start(i):
        if tgt == "wfc" or rng.random() < 0.12:
            return ["drain", i]
        if tgt == "stream" and rng.random() < 0.5:
            return ["sendv", i, [rng.choice(sizes) for _ in range(rng.randint(1, 3))]]
        return ["send", i, rng.choice(sizes[2:] if dg and rng.random() < 0.7 else sizes)]

    if rng.random() < 0.65:
        # scenario: get some senders parked, then disturb them
        if direct:
            evs.append(["pause"])
        elif rng.random() < 0.3:
            evs.append(["kernel", rng.choice(sizes)])
        ids = list(range(n))
        rng.shuffle(ids)
        for i in ids[:rng.randint(1, n)]:
            evs.append(start(i))
            if rng.random() < 0.3:
                evs.append(["turn"])
        for _ in range(rng.randint(1, 3)):
            evs.append(["turn"])
        for _ in range(rng.randint(1, 7)):
            r = rng.random()
            i = rng.randrange(n)
            if r < 0.25 and tgt != "wfc":
                evs.append(["kernel", rng.choice(sizes + [sum(sizes[:3]), sum(sizes)])])
            elif r < 0.40:
                evs.append(["cancel", i])
            elif r < 0.50:
                evs.append(start(i))
            elif r < 0.58 and direct:
                evs.append([rng.choice(["pause", "resume", "resume"])])
            elif r < 0.66:
                evs.append(["lost", rng.choice([0, 32, 104])] if (direct or rng.random() < 0.3) else ["fail", rng.choice([0, 32, 104])])
            elif r < 0.71:
                evs.append(["close"])
            else:
                evs.append(["turn"])
        return {"target": tgt, "n": n, "events": evs}
    nev = rng.randint(3, 16)
    while len(evs) < nev:
        r = rng.random()
        i = rng.randrange(n)
        if r < 0.22:
            evs.append(start(i))
        elif r < 0.50:
            evs.append(["turn"])
        elif r < 0.64 and tgt != "wfc":
            evs.append(["kernel", rng.choice(sizes + [sum(sizes[:3])])])
        elif r < 0.72:
            evs.append(["cancel", i])
        elif r < 0.80 and direct:
            evs.append([rng.choice(["pause", "pause", "resume"])])
        elif r < 0.84:
            evs.append(["lost", rng.choice([0, 32, 104])] if (direct or rng.random() < 0.3) else ["fail", rng.choice([0, 32, 104])])
        elif r < 0.87:
            evs.append(["close"])
        else:
            evs.append(["turn"])
    return {"target": tgt, "n": n, "events": evs}


def _gen_sock(rng) -> dict:
    ops: list[list] = []
    nsend = rng.randint(1, 3)
    for i in range(nsend):
        big = rng.random() < 0.8
        if rng.random() < 0.5:
            ops.append(["send", i, rng.choice([200000, 300000]) if big else rng.choice([10, 1000])])
        else:
            ops.append(["sendv", i, [rng.choice([100000, 150000]) if big else rng.choice([10, 500]) for _ in range(rng.randint(1, 3))]])
        for _ in range(rng.randint(0, 2)):
            ops.append(["turn"])
    for _ in range(rng.randint(1, 3)):
        ops.append(["turn"])
    tail = rng.random()
    if tail < 0.3:
        ops.append(["cancel", rng.randrange(nsend)])
        ops.append(["turn"])
    elif tail < 0.5:
        ops.append(["peer-close"])
        ops += [["turn"], ["turn"], ["turn"]]
    elif tail < 0.7:
        ops.append(["peer-read"])
        ops.append(["turn"])
    return {"target": "sock", "ops": ops}


def _exhaustive_flow():
    import itertools

    wfc = [["drain", 0], ["drain", 1], ["pause"], ["resume"], ["lost", 0], ["lost", 32], ["cancel", 0], ["cancel", 1], ["turn"], ["close"]]
    for ln in range(2, 5):
        for combo in itertools.product(wfc, repeat=ln):
            if combo[0][0] not in ("pause", "drain", "close"):
                continue
            yield {"target": "wfc", "n": 2, "events": [list(e) for e in combo]}
    st = [["send", 0, 3], ["sendv", 1, [2, 2]], ["kernel", 2], ["kernel", 5], ["fail", 104], ["cancel", 0], ["turn"], ["close"]]
    for ln in range(2, 6):
        for combo in itertools.product(st, repeat=ln):
            if combo[0][0] not in ("send", "sendv"):
                continue
            yield {"target": "stream", "n": 2, "events": [list(e) for e in combo]}


def generate(rng, tier: str, boost: int):
    if tier == "thorough" and boost == 1:
        # small-scope enumeration (validation, not the theorem): every list of <= 4 events for 2 bare waiters,
        # every list of <= 5 events for 2 stream senders, over fixed alphabets
        yield from _exhaustive_flow()
    n = (6000 if tier == "quick" else 100000) * boost
    for _ in range(n):
        yield _gen_flow(rng)
    m = (60 if tier == "quick" else 600) * boost
    for _ in range(m):
        yield _gen_sock(rng)


def extra_coverage(stats) -> dict:
    wlp, re_ = _env()
    return {"environment": {"writelines_runs_pause_check": bool(wlp), "adapter_reasserts_write_limits": bool(re_)},
            "flushed_on_return_theorem_applies": bool(wlp or re_)}
