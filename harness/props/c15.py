"""
C15 — Stream server: each request reaches the handler exactly once, in order.

real run : a real AsyncStreamServer over an in-memory listener/transport on the virtual-time loop; layer "low" gives the
           scripted generator to serve() directly, layer "high" goes through the real build_lowlevel_stream_server_handler
           with a scripted AsyncStreamRequestHandler, layer "tcp" runs the real AsyncTCPNetworkServer (in-memory backend).
           Both receive paths (StreamProtocol / BufferedStreamProtocol).  vlib/c15_run.py, vlib/c15_tcp.py
model run: the same chunks, arrival times and handler shape through EasyNet/Model/StreamServer.lean (endriver `c15`);
           delivered frames are decoded with the real one-shot codec (codec = parameter of the theorems)
oracle   : judged from the case and the real lines only — handler-observed sequence == the frames the case was built
           from (pkt -> value, malformed -> parse error at its position), complete when the session ended by EOF;
           TimeoutError only if no complete request had arrived before the deadline; every started generator ended
           exactly once, never two at a time; nothing delivered and NO GENERATOR STARTED after the handler closed the
           client (rule 3b); connection closed; responses on the wire.

case format
  spec, path ("copy"|"buffered"), layer ("low"|"high"|"tcp"), conv
  frames : [{"hex": bytes of the frame on the wire, "exp": {"pkt": enc_val} | "parse" | "limit" | "none"}]
  cuts, delays (units, cyclic, per chunk), end ("eof"|"reset"|"oserror"), end_delay (units), filter (bool), max_recv
  onconn : null | [step]      gens : [[step]]      step = {sleep (units), timeout (null | subticks), resp, close}
           optional step field  pre_close : the handler closes the client BEFORE asking for this request (after the sleep;
           at step 0 = in the preamble of the generator, i.e. "closing the client at request #0")   [oracle only]
           optional step field  by : "helper" - the close of this step (close / pre_close) is done by a task the handler starts
           and waits for
  oc_coro : (onconn null, layers high / tcp) on_connection() as a coroutine that does something:
           {sleep, resp, close, after (sleep after the close), by}                                        [oracle only]
  after_close : what a read on the transport does once the handler has closed it (c15_run.AFTER_CLOSE; default "ebadf")
  resp_packet : enc_val
  conn : "single" (default) | "stapled" (the library's AsyncStapledStreamTransport over two in-memory half transports whose
         aclose() takes `wclose` / `rclose` loop turns; "connection closed" = both halves closed)      (c15_run.Connection)
         | "tls" (the library's AsyncTLSStreamTransport made by the library's AsyncTLSListener - for layer "tcp":
         AsyncTCPNetworkServer(ssl=ctx) - over an in-memory wire whose other end is a real ssl.SSLObject client: real
         handshake / records / close_notify on the virtual-time loop; fields tls_max, rec_cuts, rec_early, coalesce,
         end "ragged": vlib/c15_tls.py)
  layer "tie"  : a different kind of case (real AsyncTCPNetworkServer / AsyncStreamServer on a loopback socket stepped turn by
         turn on a virtual clock; request bytes readable around / in the very loop iteration in which the yielded timeout
         expires): format, runner, oracle, generation in vlib/c15_tie.py  [oracle only]
  layer "loop" : a different kind of case (real AsyncTCPNetworkServer on a loopback socket, the client closed by a helper
         task / on_connection's task / another client's handler / the generator / the peer while the connection task is parked
         in the transport receive or the generator is busy): format, runner, oracle, generation in vlib/c15_loop.py  [oracle only]
"""
from __future__ import annotations

from typing import Any

from vlib import core, sers, streamdrive as sd
from vlib import c15_run as cr

ID = "C15"
CLAIMED = True
TITLE = "Stream server: each request reaches the handler exactly once, in order"
REQUIRED_THEOREMS = ["C15_delivery", "C15_delivery_reads", "C15_timeout_only_when_idle",
                     "C15_generator_closed_once", "C15_connection_closed", "C15_delivery_sep_buffered"]
LEVEL_TEXT = (
    "Machine-checked proof (Lean 4) that in the model of the client coroutine, the request receivers and the "
    "generator-recreating high-level handler, for every request stream, chunking, arrival schedule and handler shape, "
    "the values/parse errors entering handler generators are exactly the decoded requests in order, once each, across "
    "generator restarts; that TimeoutError is thrown only when nothing complete was available before the deadline; that "
    "every started generator is ended exactly once and the connection is closed. Plus a differential correspondence "
    "check of the model against the real AsyncStreamServer / build_lowlevel_stream_server_handler on generated "
    "sessions (virtual-time loop, in-memory transport), plus a direct oracle of the property."
)
LEVEL_NOTE = (
    "Trusted: Lean kernel; axioms propext, Quot.sound, Classical.choice only; hand-written model tied to the code by the "
    "sampled correspondence check; asyncio scheduling and the cancel scopes are represented by their effect (deadline "
    "arithmetic), not by the kernel model; the delivery theorem is instantiated for the copying consumer with the "
    "separator framer (buffered path: correspondence only); payload codecs are parameters; ties at the exact deadline "
    "are excluded by construction of the generated schedules."
)
TECHNIQUE = ("Lean 4 theorems (invariant over the receiver/handler transition function, refinement to the byte-level "
             "reference decoder) + model/code differential correspondence + direct oracle")
TRUSTED_BASE = [
    "Lean 4.33.0 kernel; axioms allowed: propext, Classical.choice, Quot.sound",
    "hand-written model EasyNet/Model/StreamServer.lean (+ Consumer/Framers) tied to lowlevel/api_async/servers/stream.py, "
    "servers/misc.py, lowlevel/_asyncgen.py by this correspondence check (sampled, not proved)",
    "harness: virtual-time event loop, in-memory transport/listener (vlib/c15_env.py), scripted handlers, canonicaliser, "
    "endriver line parser; for the loopback cases (vlib/c15_loop.py): the kernel's loopback TCP, asyncio's selector loop and "
    "socket transport, a listener proxy (public backend= extension point) observing the connection tasks; for the deadline-tie "
    "cases (vlib/c15_tie.py): the same plus the turn-stepped virtual-clock loop of vlib/c10_vloop.py, FIONREAD / POLLRDHUP on the "
    "server-side descriptor",
    "for the TLS cases (vlib/c15_tls.py, layer tie with tls): CPython's ssl module / OpenSSL (SSLObject + MemoryBIO on both sides), "
    "the harness's in-memory wire with its SSLObject peer, the certificate fixture vlib/c14_certs",
    "CPython 3.12 async generators / asyncio task scheduling / EasyNetwork cancel scopes: exercised, represented in the model "
    "only by their effect on the receive deadline",
    "payload codecs (str, json, struct) are parameters: a malformed request is a frame the codec rejects",
]
ASSUMPTIONS = [
    "the handler catches the exception thrown at a yield and goes on (handler shapes are data: sleeps, yielded timeouts, "
    "requests per generator, close at a given request, on_connection as coroutine or generator)",
    "no arrival exactly at a deadline (the property is silent on ties); timeout 0 means: only what the consumer already holds",
    "C15_delivery: the whole stream decodes without size-limit error (otherwise C15_delivery_reads applies, relative to the reads made)",
]
RULE = (
    "case = serializer config x frames (valid / malformed / over-limit / truncated tail) x cut sizes x arrival delays x end "
    "(eof, reset, filtered or not) x receive path x layer x handler shape (incl. closing the client before request #j, j = 0 "
    "in the preamble of the first generator of every shape; polling with `yield 0` over pipelined requests) x behaviour of a "
    "read after a local close x where the client is closed (on_connection as a coroutine / as a generator that returns or yields "
    "again, the last step of a handle() generator that returns; by the handler or through a helper task) x connection kind (single in-memory transport | AsyncStapledStreamTransport over two half "
    "transports with 0-3 checkpoints in aclose()) | loopback case = closer (helper task, on_connection task, other client's "
    "handler, generator, peer) x moment (parked in the transport receive at request #k | busy) x aclose / aclose_forcefully "
    "x spawn x requests per generator x yielded timeout x on_connection kind x receive path x a helper task parked inside "
    "client.send_packet() with the send lock | deadline-tie case (real loopback server stepped turn by turn on a virtual clock) "
    "= per request 1-3 pieces, each readable k iterations before / in / after the iteration in which the yielded timeout's "
    "timer fires, malformed frames, the peer's FIN as a piece x yielded timeouts x requests per generator x max_recv x server "
    "kind x receive path x plain | TLS (one record per piece, or slices of one record) | in-memory session over a TLS connection "
    "(AsyncTLSListener / AsyncTLSStreamTransport over an in-memory wire, SSLObject peer: TLS 1.2 / 1.3, record cut points, first "
    "piece of a record early, records coalesced, end by close_notify / ragged EOF / reset, yielded timeouts expiring while the "
    "server waits for bytes of the wire); non-trivial = a generator restart or an "
    "on_connection generator or a timeout or a malformed frame or a handler close occurred, keyed by layer/path/features; "
    "distinct by full case digest"
)

_aux: dict[str, Any] = {}


def _runner(case: dict):
    if case.get("layer") == "loop":
        from vlib import c15_loop
        return c15_loop.run_real
    if case.get("layer") == "tie":
        from vlib import c15_tie
        return c15_tie.run_real
    if case.get("layer") == "tcp":
        from vlib import c15_tcp
        if case.get("conn", "single") != "single":
            return c15_tcp.run_tcp_server_conn_session
        return c15_tcp.run_tcp_server_session
    return cr.run_session


def real_for_diff(case: dict, real: list[str]) -> list[str]:
    # per-half detail of a stapled connection / the peer's view of a TLS connection: for the oracle and the replay reader,
    # not a line of the model
    out = [ln for ln in real if not ln.startswith(("halves ", "tls "))]
    if case.get("conn") == "tls":
        out = [_no_aclose_count(ln) for ln in out]
    return out


def _no_aclose_count(ln: str) -> str:
    # a TLS connection: the in-memory object is the WIRE under the library's TLS transport, which closes it once whatever
    # the number of aclose() calls it received itself
    return ln.split(" aclose_calls=")[0] if ln.startswith("transport ") else ln


def run_real(case: dict) -> list[str]:
    lines, aux = _runner(case)(case)
    if case.get("layer") in ("loop", "tie"):
        return lines
    lines = lines + ["wire " + core.hexs(aux["written"])]
    _aux[core.case_digest(case)] = aux
    return lines


def _model_layer(case: dict) -> str:
    return "low" if case.get("layer", "low") == "low" else "high"


def model_input(case: dict, real: list[str]):
    if case.get("layer") in ("loop", "tie"):
        return None     # real loopback sockets (closers in other tasks / arrivals tied with a deadline): oracle only
    if case.get("oc_coro"):
        return None     # an on_connection() coroutine that sleeps / greets / closes the client: oracle only
    if _has_pre_close(case):
        return None     # closing before asking for a request is not a construct of the model: oracle only
    if case.get("conn") == "tls" and not _tls_modelled(case):
        return None
    head = sers.model_head(case["spec"], case["path"], case.get("max_recv", 16384))
    if head is None:
        return None
    if case["path"] == "copy":
        head += f" {case.get('max_recv', 16384)}"
    incoming, t_end, chunks = cr.build_incoming(case)
    ops = [f"chunk {cr.tick_of(t)} {core.hexs(c)}" for t, c in incoming]
    filt = 1 if (case.get("filter", True) or case.get("layer") == "tcp") else 0
    ops.append(f"fin {case.get('end', 'eof')} {cr.tick_of(t_end)} {filt}")

    def st(s: dict) -> str:
        to = s.get("timeout")
        return (f"st {s.get('sleep', 0) * cr.UNIT} {'-' if to is None else to} "
                f"{1 if s.get('resp') else 0} {1 if s.get('close') else 0}")

    oc = case.get("onconn")
    if oc is None or _model_layer(case) == "low":
        ops.append("oc none")
    else:
        ops.append("oc gen")
        ops.extend(st(s) for s in oc)
    for g in case["gens"]:
        ops.append("gen")
        ops.extend(st(s) for s in g)
    return f"c15 {_model_layer(case)} {head}", ops


def _tls_modelled(case: dict) -> bool:
    """a TLS session whose observable lines are those of the plain in-memory transport (the model's): the peer leaves with
    a clean close_notify (= EOF) or a reset that the server filters (after any OTHER wire error the TLS transport is dead:
    the next read is an SSL EOF error, not the same error again); one wire read per record (coalesced records / a record
    larger than the read size stay inside the SSL object, which hands the rest out WITHOUT a checkpoint: a `yield 0` poll
    then gets a request where the plain transport - and the model - have a TimeoutError; both satisfy the property, rule
    4b applies to both), i.e. no poll at all.  Everything else: oracle only."""
    end = case.get("end", "eof")
    if case.get("coalesce"):
        return False
    if not (end == "eof" or (end == "reset" and (case.get("filter", True) or case.get("layer") == "tcp"))):
        return False
    return not any(st.get("timeout") == 0 for st in _all_steps(case))


def _all_steps(case: dict):
    for st in (case.get("onconn") or []):
        yield st
    for g in case["gens"]:
        yield from g


def _has_pre_close(case: dict) -> bool:
    return any(st.get("pre_close") for st in _all_steps(case))


def model_post(case: dict, lines: list[str]) -> list[str]:
    from easynetwork.exceptions import DeserializeError, PacketConversionError

    ser = sers.build(sers.recv_spec(case["spec"]))
    conv = sd.WrapConverter() if case.get("conv") else None
    out = []
    nresp = 0
    for ln in lines:
        w = ln.split()
        if w and w[0] == "req":
            name, h, t = w[1], w[2], w[3]
            data = b"" if h == "-" else bytes.fromhex(h)
            try:
                p = sd.frame_decode(case["spec"], ser, data)
                if conv is not None:
                    p = conv.create_from_dto_packet(p)
            except DeserializeError:
                out.append(f"err {name} parse {t}")
            except PacketConversionError:
                out.append(f"err {name} conv {t}")
            else:
                out.append(f"req {name} {sd.pkt_line(p)[4:]} {t}")
        else:
            if w and w[0] == "nresp":
                nresp = int(w[1])
            out.append(ln)
    out.append("wire " + core.hexs(_resp_bytes(case) * nresp))
    if case.get("conn") == "tls":
        out = [_no_aclose_count(ln) for ln in out]
    return out


def _resp_bytes(case: dict) -> bytes:
    return sd.produce(case["spec"], [sers.dec_val(case["resp_packet"])], bool(case.get("conv")))[0]


# ------------------------------------------------------------------------------------------------------------
# oracle
# ------------------------------------------------------------------------------------------------------------

def _t(tok: str) -> int:
    tok = tok[1:]
    if "+" in tok:
        a, b = tok.split("+")
        return int(a) * cr.UNIT + int(b)
    return int(tok) * cr.UNIT


def _expected(case: dict) -> list[str]:
    exp = []
    for f in case["frames"]:
        e = f["exp"]
        if e == "parse":
            exp.append("err parse")
        elif e == "limit":
            exp.append("err limit")
        elif e == "none":
            break
        else:
            p = sers.expected_received(case["spec"], sers.dec_val(e["pkt"]))
            exp.append("req " + sd.pkt_line(sd.Wrapped(p) if case.get("conv") else p)[4:])
    return exp


def oracle(case: dict, real: list[str]) -> str | None:
    if case.get("layer") == "loop":
        from vlib import c15_loop
        return c15_loop.oracle(case, real)
    if case.get("layer") == "tie":
        from vlib import c15_tie
        return c15_tie.oracle(case, real)
    for ln in real:
        if ln.startswith(("harness-exc", "main-exc")) or " other:" in ln or ln.startswith("task exc") or ln.startswith("task cancelled"):
            return f"unexpected failure: {ln}"
    exp = _expected(case)
    lim = next((i for i, e in enumerate(exp) if e == "err limit"), None)
    got: list[str] = []           # delivered sequence
    events = []                   # (kind, name, time, index in got)
    for li, ln in enumerate(real):
        w = ln.split()
        if not w:
            continue
        if w[0] == "req":
            got.append("req " + ln.split(" ", 2)[2].rsplit(" ", 1)[0])
            events.append(("item", w[1], _t(w[-1]), len(got), li))
        elif w[0] == "err" and w[2] in ("parse", "limit", "conv"):
            got.append("err " + w[2])
            events.append(("item", w[1], _t(w[-1]), len(got), li))
        elif w[0] == "err":
            events.append((w[2], w[1], _t(w[-1]), len(got), li))
        elif w[0] == "closed-by-handler":
            events.append(("hclose", w[1], _t(w[-1]), len(got), li))
        elif w[0] == "gen":
            events.append(("gen-" + w[2] + ("-" + w[3] if w[2] == "end" else ""), w[1], _t(w[-1]), len(got), li))
    # 1. in order, once each: the delivered sequence is a prefix of the sent one
    cmp_n = len(got) if lim is None else min(len(got), lim + 1)
    if got[:cmp_n] != exp[:cmp_n]:
        k = next((i for i in range(cmp_n) if i >= len(exp) or got[i] != exp[i]), cmp_n)
        return f"request #{k} seen by the handler: {got[k] if k < len(got) else '<none>'!r}, sent: {exp[k] if k < len(exp) else '<nothing>'!r}"
    if lim is None and len(got) > len(exp):
        return f"{len(got)} requests delivered, {len(exp)} sent"
    # 3. nothing is delivered once the handler has closed the client (judged before 2: what a read on the closed transport
    #    produced is not "the peer's connection error")
    seen_close = False
    for e in events:
        if e[0] == "hclose":
            if not seen_close:
                closer, t_close = e[1], e[2]
            seen_close = True
        elif seen_close and e[0] in ("item", "timeout", "conn", "oserror"):
            what = "a request" if e[0] == "item" else f"an exception ({e[0]})"
            return (f"after the handler had closed the client (before request #{e[3] if e[0] != 'item' else e[3] - 1}) "
                    f"{what} was delivered to generator {e[1]} instead of closing it")
        elif seen_close and e[0] == "gen-start":
            # 3b. "when the handler closes the client, the active generator is closed exactly once and the connection is
            #     closed": the close is the end of the story for that connection - no generator becomes active any more
            #     (wherever the client was closed: on_connection as a coroutine or a generator, a handle() generator that
            #     returns right after the close, by the handler itself or by a helper task it waited for)
            return (f"after the handler had closed the client ({_close_text(case, closer)} at {cr.show_t(t_close)}, {e[3]} "
                    f"request(s) delivered) a NEW generator ({'handle() #' + e[1] if e[1] != 'oc' else 'on_connection'}) was "
                    f"started on the closed client at {cr.show_t(e[2])}: 1 generator start after the close, expected 0 "
                    f"(layer {case.get('layer', 'low')}, {case['path']} receive path)")
    # 2c. "when the client disconnects or the handler closes the client, the active generator is closed ... and the connection
    #     is closed" - and not before: as long as the peer is there (it stays until `t_end`, whatever the way it leaves then)
    #     and the handler has not closed the client, no generator is closed and no connection error is thrown into one
    aux = _aux.get(core.case_digest(case))
    if aux is not None and "t_end" in aux:
        t_end = cr.tick_of(aux["t_end"])
        for e in events:
            if e[0] == "hclose":
                break
            if e[0] in ("gen-end-closed", "conn", "oserror") and e[2] < t_end:
                what = ("generator " + e[1] + " was closed (the connection dropped)" if e[0] == "gen-end-closed"
                        else f"a connection error ({e[0]}) was thrown into generator {e[1]}")
                prev = next((x for x in reversed(events[:events.index(e)]) if x[0] in ("item", "timeout")), None)
                after = ""
                if prev is not None and prev[0] == "timeout":
                    after = f", after the yielded timeout that expired at {cr.show_t(prev[2])}"
                return (f"{what} at {cr.show_t(e[2])}{after}, although the peer was still connected (it leaves at "
                        f"{cr.show_t(t_end)}: {case.get('end', 'eof')}) and the handler had not closed the client: "
                        f"{e[3]} of {len(exp)} requests delivered" + _conn_text(case))
    if case.get("conn") == "tls":
        tl = next((ln for ln in real if ln.startswith("tls ")), "")
        if "handshake=1" not in tl:
            return f"the TLS handshake with a well-behaved peer did not complete: {tl!r}"
    # 2. complete when the session ended because the peer went away
    hclose = any(e[0] == "hclose" for e in events)
    ended_by_peer = (not hclose) and any(e[0] == "gen-end-closed" for e in events)
    conn_err = next((e for e in events if e[0] in ("conn", "oserror")), None)
    if lim is None:
        if ended_by_peer and len(got) != len(exp):
            return f"peer disconnected after sending {len(exp)} requests, the handler saw only {len(got)}"
        if conn_err is not None and conn_err[3] != len(exp):
            return f"connection error reported to the handler after {conn_err[3]} of {len(exp)} requests"
    # 4. TimeoutError only if no complete request had arrived before the deadline
    if aux is not None and lim is None:
        ends, acc = [], 0
        for f in case["frames"]:
            acc += len(f["hex"]) // 2
            if f["exp"] != "none":
                ends.append(acc)
        for e in events:
            if e[0] != "timeout":
                continue
            t = e[2]
            arrived = sum(len(c) for (ta, c) in aux["incoming"] if cr.tick_of(ta) < t)
            complete = sum(1 for x in ends if x <= arrived)
            if complete > e[3] and not _zero_timeout(case, e, events):
                return (f"TimeoutError at {t} although {complete} complete requests had arrived before the deadline "
                        f"and only {e[3]} had been delivered")
        # 4b. whatever the yielded timeout (0 included: a request that is ALREADY in the server's hands when the handler
        #     yields did not "arrive late", this is no tie): TimeoutError never while a complete request (or a malformed
        #     frame due as a parse error) that the server has already taken out of the connection is still undelivered.
        #     marks[i] = bytes the server had read from the transport when line i was logged.
        marks = aux.get("read_marks") or []
        for e in events:
            if e[0] != "timeout" or e[4] >= len(marks) or marks[e[4]] < 0:
                continue
            held = sum(1 for x in ends if x <= marks[e[4]])
            if held > e[3]:
                return (f"TimeoutError at {e[2]} (yielded timeout {_yielded_timeout(case, e, events)}) although the server had "
                        f"already read {marks[e[4]]} bytes = {held} complete requests from the connection and delivered "
                        f"only {e[3]}: request #{e[3]} was waiting in the receive buffer")
    # 5. generators: started ones end exactly once, one at a time, before the task finishes
    active: str | None = None
    ended: set[str] = set()
    for ln in real:
        w = ln.split()
        if w[:1] == ["gen"] and w[2] == "start":
            if active is not None:
                return f"generator {w[1]} started while {active} is still active"
            if w[1] in ended:
                return f"generator {w[1]} started twice"
            active = w[1]
        elif w[:1] == ["gen"] and w[2] == "end":
            if active != w[1]:
                return f"generator {w[1]} ended but active is {active}"
            active = None
            ended.add(w[1])
        elif w[:1] == ["task-done"] and active is not None:
            return f"generator {active} still open when the client task finished"
        elif w[0] in ("req", "err") and active != w[1]:
            return f"{ln!r} delivered to a generator that is not the active one"
    if aux is not None:
        for name, hows in aux["gen_ends"].items():
            if len(hows) != 1:
                return f"generator {name} finalised {len(hows)} times"
    # 6. connection closed, task ended normally
    if not any(ln.startswith("task ok") for ln in real):
        return "client task did not end normally"
    tl = next((ln for ln in real if ln.startswith("transport ")), "")
    if "closed=1" not in tl:
        hl = next((ln for ln in real if ln.startswith("halves ")), "")
        if hl:
            return ("connection not closed when the connection task ended (stapled transport: every half must be closed "
                    f"and transport.is_closing() true): {hl}")
        return f"connection not closed at the end: {tl}"
    # 7. responses written
    nresp = sum(1 for ln in real if ln.startswith("resp "))
    wire = next((ln.split()[1] for ln in real if ln.startswith("wire ")), "-")
    if wire != core.hexs(_resp_bytes(case) * nresp):
        return f"{nresp} responses sent but the wire holds {wire}"
    return None


def _close_text(case: dict, closer: str) -> str:
    by = ""
    if closer == "oc":
        st = case.get("oc_coro") if case.get("onconn") is None else None
        if st is not None:
            by = " through a helper task" if st.get("by") == "helper" else ""
            return "in the on_connection() coroutine" + by
        return "in the on_connection() generator"
    return f"in handle() generator #{closer}"


def _conn_text(case: dict) -> str:
    if case.get("conn") == "tls":
        return (f" (TLS connection: AsyncTLSStreamTransport over an in-memory wire, {case.get('tls_max', '1.3')}, "
                f"layer {case.get('layer', 'low')}, {case['path']} receive path)")
    return ""


def _step_of(case: dict, ev, events) -> dict | None:
    # the k-th exception/item delivered to generator `name` corresponds to its k-th step
    name = ev[1]
    steps = case.get("onconn") if name == "oc" else (case["gens"][int(name)] if int(name) < len(case["gens"]) else [])
    k = 0
    for e in events:
        if e is ev:
            break
        if e[1] == name and e[0] in ("item", "timeout", "conn", "oserror"):
            k += 1
    return steps[k] if steps and k < len(steps) else None


def _zero_timeout(case: dict, ev, events) -> bool:
    """the timeout that fired was a `yield 0` (poll): the ARRIVAL-based rule is silent (deadline == time of the yield:
    data that is readable but not yet read is a tie); rule 4b (data already read) still applies"""
    st = _step_of(case, ev, events)
    return st is not None and st.get("timeout") == 0


def _yielded_timeout(case: dict, ev, events) -> str:
    st = _step_of(case, ev, events)
    return "?" if st is None else str(st.get("timeout"))


def nontrivial(case: dict, real: list[str]) -> str | None:
    if case.get("layer") == "loop":
        from vlib import c15_loop
        return c15_loop.nontrivial(case, real)
    if case.get("layer") == "tie":
        from vlib import c15_tie
        return c15_tie.nontrivial(case, real)
    feats = []
    starts = sum(1 for ln in real if ln.startswith("gen ") and " start " in ln and not ln.startswith("gen oc"))
    if starts >= 2:
        feats.append("restart")
    if any(ln.startswith("gen oc start") for ln in real):
        feats.append("ocgen")
    if any(" timeout " in ln for ln in real if ln.startswith("err ")):
        feats.append("timeout")
    if any(ln.startswith("err ") and ln.split()[2] in ("parse", "limit") for ln in real):
        feats.append("bad")
    if any(ln.startswith("closed-by-handler") for ln in real):
        feats.append("hclose")
        if case.get("oc_coro") and case.get("onconn") is None:
            feats.append("occoro")
        if any(ln.startswith("closed-by-handler oc") for ln in real):
            feats.append("occlose")         # closed inside on_connection()
        first = next((ln for ln in real if ln.startswith(("req ", "err ", "closed-by-handler"))), "")
        if first.startswith("closed-by-handler") and _has_pre_close(case):
            feats.append("close0")          # closed before request #0 was asked for
    aux = _aux.get(core.case_digest(case))
    if aux:
        bounds, acc = set(), 0
        for f in case["frames"]:
            acc += len(f["hex"]) // 2
            bounds.add(acc)
        pos = 0
        for c in aux["chunks"][:-1]:
            pos += len(c)
            if pos not in bounds:
                feats.append("midcut")
                break
    if case.get("conn", "single") != "single":
        feats.insert(0, case["conn"])
        if case.get("conn") == "tls" and "timeout" in feats:
            # a yielded timeout expired on a TLS connection and the handler received something afterwards
            seen_to = False
            for ln in real:
                if ln.startswith("err ") and " timeout " in ln:
                    seen_to = True
                elif seen_to and ln.startswith(("req ", "err ")):
                    feats.append("later")
                    break
    if not feats:
        return None
    return f"{case.get('layer', 'low')}/{case['path']}/" + "+".join(feats)


def shrink(case: dict):
    if case.get("layer") == "loop":
        from vlib import c15_loop
        yield from c15_loop.shrink(case)
        return
    if case.get("layer") == "tie":
        from vlib import c15_tie
        yield from c15_tie.shrink(case)
        return
    fr = case["frames"]
    for i in range(len(fr)):
        yield {**case, "frames": fr[:i] + fr[i + 1:]}
    gens = case["gens"]
    for i in range(len(gens)):
        if len(gens) > 1:
            yield {**case, "gens": gens[:i] + gens[i + 1:]}
        g = gens[i]
        for j in range(len(g)):
            if len(g) > 1:
                yield {**case, "gens": gens[:i] + [g[:j] + g[j + 1:]] + gens[i + 1:]}
            s = g[j]
            for key, val in (("sleep", 0), ("timeout", None), ("resp", False), ("close", False), ("pre_close", False)):
                if s.get(key) not in (val, None) or (key == "timeout" and s.get(key) is not None):
                    yield {**case, "gens": gens[:i] + [g[:j] + [{**s, key: val}] + g[j + 1:]] + gens[i + 1:]}
    if case.get("oc_coro"):
        yield {k: v for k, v in case.items() if k != "oc_coro"}
        oc = case["oc_coro"]
        for key in ("sleep", "resp", "after", "by"):
            if oc.get(key):
                yield {**case, "oc_coro": {k: v for k, v in oc.items() if k != key}}
    for i, g in enumerate(gens):
        for j, st in enumerate(g):
            if st.get("by"):
                yield {**case, "gens": gens[:i] + [g[:j] + [{k: v for k, v in st.items() if k != "by"}] + g[j + 1:]] + gens[i + 1:]}
    if case.get("onconn") is not None:
        yield {**case, "onconn": None}
        oc = case["onconn"]
        for j in range(len(oc)):
            if len(oc) > 1:
                yield {**case, "onconn": oc[:j] + oc[j + 1:]}
            for key in ("sleep", "resp", "by"):
                if oc[j].get(key):
                    yield {**case, "onconn": oc[:j] + [{k: v for k, v in oc[j].items() if k != key}] + oc[j + 1:]}
    if case.get("after_close", "ebadf") != "ebadf":
        yield {**case, "after_close": "ebadf"}
    if case.get("conn") == "tls":
        # (a TLS case stays a TLS case: the plain twin is a different family)
        for key, val in (("rec_cuts", [0]), ("rec_early", [False]), ("coalesce", False), ("tls_max", "1.3")):
            if case.get(key, val) != val:
                yield {**case, key: val}
        if case.get("end") == "ragged":
            yield {**case, "end": "eof"}
    elif case.get("conn", "single") != "single":
        yield {k: v for k, v in case.items() if k not in ("conn", "wclose", "rclose")}
        if case.get("rclose"):
            yield {**case, "rclose": 0}
        if case.get("wclose", 1) > 1:
            yield {**case, "wclose": 1}
    cuts = case["cuts"]
    if len(cuts) > 1:
        for i in range(len(cuts)):
            yield {**case, "cuts": cuts[:i] + cuts[i + 1:]}
    if cuts != [1 << 20]:
        yield {**case, "cuts": [1 << 20]}
    if any(case.get("delays", [0])):
        yield {**case, "delays": [0]}
    if case.get("end_delay"):
        yield {**case, "end_delay": 0}
    if case.get("conv"):
        yield {**case, "conv": False}
    if case.get("layer") == "tcp":
        yield {**case, "layer": "high"}


def known_key(case: dict, real: list[str], why: str) -> str:
    if case.get("layer") == "tie":
        return (f"layer=tie,server={case.get('server')},path={case['path']},"
                f"why={'-'.join(why.split(': ', 1)[-1].split()[:3])}")
    if case.get("layer") == "loop":
        return (f"layer=loop,path={case['path']},closer={case.get('closer')},moment={case.get('moment')},"
                f"why={'-'.join(why.split(': ', 1)[-1].split()[:4])}")
    return f"layer={case.get('layer', 'low')},path={case['path']},why={why.split()[0]}"


# ------------------------------------------------------------------------------------------------------------
# generation
# ------------------------------------------------------------------------------------------------------------

LINE = {"k": "line", "newline": "LF", "keep_end": False, "encoding": "ascii", "limit": 32}
CRLF = {"k": "line", "newline": "CRLF", "keep_end": False, "encoding": "ascii", "limit": 16}


def _fr(b: bytes, exp) -> dict:
    return {"hex": b.hex(), "exp": exp}


def _valid(spec: dict, p: Any, conv: bool = False) -> dict:
    return _fr(sd.produce(spec, [p], conv)[0], {"pkt": sers.enc_val(p)})


def bad_frame(rng, spec: dict) -> dict | None:
    r = sers.recv_spec(spec)
    sep = sers.separator(spec)
    k = r["k"]
    if k == "line":
        body = bytes(rng.choice([0xff, 0xfe, 0xc3]) for _ in range(rng.randint(1, 3)))
        if r.get("encoding") == "utf-8":
            body = b"\xff" + body[1:]
        else:
            body = b"\xe9" + body[1:]
        return _fr(body + sep, "parse")
    if k == "autosep":
        body = b"\xff" + bytes(rng.choice(b"ab") for _ in range(rng.randint(0, 3)))
        if (body + sep).find(sep) != len(body):
            return None
        return _fr(body + sep, "parse")
    if k == "fixed":
        return _fr(b"\xff" + b"z" * (r["size"] - 1), "parse")
    if k == "json":
        return _fr(rng.choice([b"{x", b"[1,", b"nul", b"\"a"]) + b"\n", "parse")
    return None


def step(rng, j: list[int], *, closing: float = 0.05) -> dict:
    r = rng.random()
    if r < 0.55:
        to = None
    elif r < 0.68:
        to = 0
    else:
        to = rng.choice([0, 1, 1, 2, 4]) * cr.UNIT + (1 << (j[0] % 19))
        j[0] += 1
    return {"sleep": rng.choice([0, 0, 0, 0, 1, 3]), "timeout": to, "resp": rng.random() < 0.3,
            "close": rng.random() < closing}


def gen_case(rng, layers=("low", "high", "high")) -> dict | None:
    spec = sers.gen_spec(rng, limits=(8, 16, 64), allow=["line", "line", "autosep", "autosep", "fixed", "json", "struct", "stapledbuf"])
    buffered_ok = sers.is_buffered(spec)
    path = "buffered" if (buffered_ok and rng.random() < 0.5) else "copy"
    conv = rng.random() < 0.15
    lim = sers.limit_of(spec) or 65536
    sep = sers.separator(spec)
    maxlen = 10
    if sep is not None:
        maxlen = max(1, min(10, lim - len(sep) - 1 - (len(sep) if sers.keep_end(spec) else 0)))
    frames = []
    n = rng.choice([0, 1, 2, 3, 3, 4, 5, 7])
    over = False
    for _ in range(n):
        r = rng.random()
        if r < 0.2:
            f = bad_frame(rng, spec)
            if f is not None and (sep is None or len(f["hex"]) // 2 < lim):
                frames.append(f)
                continue
        if r > 0.97 and sep is not None and sers.recv_spec(spec)["k"] in ("line", "autosep") and not over:
            body = b"a" * (lim + 3)
            frames.append(_fr(body + sep, "limit"))
            over = True
            continue
        p = sers.gen_packet(rng, spec, maxlen)
        f = _valid(spec, p, conv)
        if sers.limit_of(spec) is not None and len(f["hex"]) // 2 >= lim:
            continue
        frames.append(f)
    if rng.random() < 0.15 and not over:
        # truncated tail: a frame whose end never arrives
        p = sers.gen_packet(rng, spec, maxlen)
        b = sd.produce(spec, [p], conv)[0]
        cutat = rng.randint(1, max(1, len(b) - 1))
        if len(b) > 1 and (sep is None or (sep not in b[:cutat] and cutat + len(sep) + 1 < lim)):
            frames.append(_fr(b[:cutat], "none"))
    mode = rng.random()
    if mode < 0.25:
        cuts = [1]
    elif mode < 0.4:
        cuts = [1 << 20]
    else:
        cuts = [rng.choice([1, 1, 2, 3, 5, 8, 13, 40]) for _ in range(rng.randint(1, 8))]
    delays = [rng.choice([0, 0, 0, 1, 2, 5]) for _ in range(rng.randint(1, 5))]
    j = [rng.randrange(19)]
    layer = rng.choice(layers)
    ngen = 1 if layer == "low" else rng.choice([1, 2, 2, 3, 4])
    total = n + rng.choice([0, 1, 2, 3])
    gens = []
    for g in range(ngen):
        k = max(1, total // ngen + rng.choice([-1, 0, 0, 1])) if rng.random() < 0.9 else 0
        gens.append([step(rng, j) for _ in range(k)])
    onconn = None
    if layer != "low" and rng.random() < 0.3:
        onconn = [step(rng, j, closing=0.02) for _ in range(rng.choice([0, 1, 1, 2]))]
    max_recv = rng.choice([1, 2, 3, 8, 64, 16384])
    fs = sers.fixed_size(spec)
    if path == "buffered" and sep is not None:
        pass
    end = rng.choice(["eof", "eof", "eof", "eof", "reset", "reset", "oserror"])
    filt = True if end != "reset" else rng.random() < 0.7
    case = {"spec": spec, "path": path, "layer": layer, "conv": conv, "frames": frames, "cuts": cuts, "delays": delays,
            "end": end, "end_delay": rng.choice([0, 0, 1, 3]), "filter": filt, "max_recv": max_recv,
            "onconn": onconn, "gens": gens, "resp_packet": sers.enc_val(sers.gen_packet(rng, spec, 4))}
    _variants(rng, case)
    return case


def _variants(rng, case: dict) -> None:
    """(own draws, after everything else) the handler closes the client BEFORE asking for request #j (j = 0: in the preamble
    of the very first generator — handle(), an on_connection generator or the bare low-level generator), with or without
    data already sent by the peer; what a read after the close does; polling handlers (`yield 0`) over pipelined requests"""
    r = rng.random()
    gens, onconn = case["gens"], case["onconn"]
    if r < 0.10:
        first = onconn if onconn else (gens[0] if gens and gens[0] else None)
        if r < 0.07 and first:
            first[0]["pre_close"] = True            # request #0
            if rng.random() < 0.5:
                first[0]["sleep"] = 0
        else:
            pool = [g for g in ([onconn] if onconn else []) + gens if g]
            if pool:
                g = rng.choice(pool)
                g[rng.randrange(len(g))]["pre_close"] = True
        if rng.random() < 0.5:
            case["delays"] = [0]                    # everything the peer sends is there before the handler starts
        if rng.random() < 0.3:
            case["filter"] = False
    elif r < 0.20:
        # polling handler: first request awaited for ever (or not), every further one polled with `yield 0`,
        # the requests pipelined in few chunks
        k = 0
        for st in _all_steps(case):
            if k > 0 or rng.random() < 0.3:
                st["timeout"] = 0
                if rng.random() < 0.8:
                    st["sleep"] = 0
            k += 1
        case["cuts"] = rng.choice([[1 << 20], [1 << 20], [40], [13, 40], [8, 1 << 20]])
        if rng.random() < 0.7:
            case["delays"] = [0]
        case["max_recv"] = rng.choice([64, 16384, 16384])
    if rng.random() < 0.3:
        case["after_close"] = rng.choice(["reset", "aborted", "data", "data", "eof"])
    if rng.random() < 0.12:
        # the connection is the library's AsyncStapledStreamTransport over two half transports whose aclose() takes
        # `wclose` / `rclose` loop turns (0 = returns without a checkpoint): "closed" = both halves closed
        case["conn"] = "stapled"
        case["wclose"] = rng.choice([1, 1, 1, 2, 3, 0])
        case["rclose"] = rng.choice([0, 0, 0, 1, 2])


def gen_occlose_case(rng) -> dict | None:
    """the client is closed BEFORE the first handle() generator exists, or right where the next one would be created: inside
    on_connection() as a coroutine (after a sleep / a greeting, by itself or through a helper task it waits for) or as a
    generator (after having consumed 0-2 requests: closes and returns, or closes and yields once more), or at the last step
    of a handle() generator which then returns - with requests pipelined behind the close or arriving later, both receive
    paths, layers high / tcp, every transport behaviour after a local close, single / stapled connection.  After the close
    no generator may be started (oracle rule 3b), nothing is delivered (3), on_disconnection / connection closed (5, 6)."""
    c = gen_case(rng, ("high", "high", "tcp"))
    if c is None:
        return None
    j = [rng.randrange(19)]
    by = lambda: ({"by": "helper"} if rng.random() < 0.35 else {})      # noqa: E731
    r = rng.random()
    if r < 0.4:
        c["onconn"] = None
        c["oc_coro"] = {"sleep": rng.choice([0, 0, 1, 3]), "resp": rng.random() < 0.4, "close": True,
                        "after": rng.choice([0, 0, 1]), **by()}
    elif r < 0.8:
        oc = [step(rng, j, closing=0.0) for _ in range(rng.choice([1, 1, 2, 3]))]
        if rng.random() < 0.75:
            oc[-1].update({"close": True, **by()})          # closes, then returns: the handle() loop comes next
        else:
            oc[rng.randrange(len(oc))].update({"pre_close": True, **by()})   # closes, then yields again
        c["onconn"] = oc
    else:
        gens = [g for g in c["gens"] if g]
        if len(gens) < 2:
            gens = gens + [[step(rng, j, closing=0.0)] for _ in range(2 - len(gens))]
        c["gens"] = gens
        g = gens[rng.randrange(len(gens) - 1)]
        for st in g:
            st.pop("pre_close", None)
            st["close"] = False
        g[-1].update({"close": True, **by()})               # the generator returns right after the close
    if rng.random() < 0.5:
        c["delays"] = [0]           # everything the peer sends is already there (pipelined behind the close)
    if not c["frames"] and rng.random() < 0.7:
        c["frames"] = [_valid(c["spec"], sers.gen_packet(rng, c["spec"], 4), c["conv"]) for _ in range(rng.choice([1, 2, 4]))]
        lim_ = sers.limit_of(c["spec"])
        if lim_ is not None:
            # (as in gen_case: a frame that is not safely under the serializer's limit is not a "valid request")
            c["frames"] = [f for f in c["frames"] if len(f["hex"]) // 2 < lim_]
    return c


def gen_tls_case(rng) -> dict | None:
    """a session of the in-memory layers over a TLS connection (vlib/c15_tls.py), biased towards the part of the clause
    that only exists there: yielded timeouts that EXPIRE while the server waits for bytes of the wire - before any byte of a
    request, inside a request, inside a TLS record (first piece of the record early, the rest after the deadline) - the
    handler going on, the peer sending more requests later; both receive paths, all three layers, TLS 1.2 / 1.3, records
    coalesced in one read, clean / ragged / reset ends"""
    c = gen_case(rng, ("low", "high", "tcp", "tcp"))
    if c is None:
        return None
    c.pop("wclose", None)
    c.pop("rclose", None)
    c["conn"] = "tls"
    c["tls_max"] = rng.choice(["1.3", "1.3", "1.2"])
    c["rec_cuts"] = [rng.choice([0, 0, 1, 3, 5, 6, 12, -1, -9]) for _ in range(rng.randint(1, 4))]
    c["rec_early"] = [rng.random() < 0.6 for _ in range(rng.randint(1, 3))]
    if rng.random() < 0.2:
        c["coalesce"] = True
    if c["end"] == "eof" and rng.random() < 0.2:
        c["end"] = "ragged"
    if rng.random() < 0.75 and not _has_pre_close(c):
        c["delays"] = [rng.choice([0, 1, 2, 3, 5]) for _ in range(rng.randint(1, 4))]
        if not any(c["delays"]):
            c["delays"].append(rng.choice([1, 2, 4]))
        c["end_delay"] = rng.choice([0, 1, 3])
        # enough yields to outlive the timeouts that expire
        last = c["gens"][-1] if c["layer"] != "low" else c["gens"][0]
        j0 = [0]
        for _ in range(rng.choice([2, 3, 5, 8])):
            last.append(step(rng, j0, closing=0.0))
        # every finite timeout of the case re-drawn with one counter (distinct dyadic fractions: no tie with an arrival)
        j = rng.randrange(19)
        for st in _all_steps(c):
            if st.get("timeout") == 0 and rng.random() < 0.5:
                continue
            if st.get("timeout") or rng.random() < 0.7:
                st["timeout"] = rng.choice([0, 1, 1, 2]) * cr.UNIT + (1 << (j % 19))
                j += 1
    return c


def _tls_corpus() -> list[dict]:
    U = cr.UNIT
    ok = sers.enc_val("ok")
    cases = []

    def to(k: int, frac: int, **kw) -> dict:
        return {"sleep": 0, "timeout": k * U + (1 << frac), "resp": False, "close": False, **kw}

    plain = {"sleep": 0, "timeout": None, "resp": False, "close": False}
    for layer in ("low", "high", "tcp"):
        for path in ("copy", "buffered"):
            for tls_max in ("1.3", "1.2"):
                base = {"spec": LINE, "path": path, "layer": layer, "conv": False, "conn": "tls", "tls_max": tls_max,
                        "filter": True, "max_recv": 16384, "onconn": None, "resp_packet": ok}

                def gens(steps: list[dict], per_gen: int) -> list[list[dict]]:
                    if layer == "low":
                        return [steps]
                    return [steps[i:i + per_gen] for i in range(0, len(steps), per_gen)]

                # 1. the history of the clause: a request, silence until the yielded timeout expires (TimeoutError, the
                #    handler answers and goes on), a second request, a third one cut in two by one more expired timeout,
                #    the peer leaves (close_notify).  Two events per generator: the later requests go to restarted generators.
                steps = [to(1, k, resp=True) for k in range(12)]
                for rec_cuts, early in (([0], False), ([3], True), ([-5], True)):
                    cases.append({**base, "frames": [_valid(LINE, "one"), _valid(LINE, "two"), _valid(LINE, "three")],
                                  "cuts": [4, 4, 3, 50], "delays": [0, 3, 3, 3], "end": "eof", "end_delay": 2,
                                  "rec_cuts": rec_cuts, "rec_early": [early], "gens": gens(steps, 2)})
                # 2. the timeout expires before any byte of the connection has arrived (and while the first piece of the
                #    first record is all the server has); ragged end / reset instead of close_notify
                for end, rec_cuts in (("eof", [0]), ("ragged", [5]), ("reset", [1])):
                    cases.append({**base, "frames": [_valid(LINE, "a"), _valid(LINE, "b")], "cuts": [1 << 20],
                                  "delays": [4], "end": end, "end_delay": 3, "rec_cuts": rec_cuts, "rec_early": [True],
                                  "gens": gens([to(1, k) for k in range(10)], 3)})
            # 3. pipelined requests in one read of the wire (several records, the SSL object hands them out one by one),
            #    polled with `yield 0`; then silence, timeouts, one more request
            base = {"spec": LINE, "path": path, "layer": layer, "conv": False, "conn": "tls", "filter": True,
                    "max_recv": 16384, "onconn": None, "resp_packet": ok}
            poll = {"sleep": 0, "timeout": 0, "resp": False, "close": False}
            steps = [plain] + [poll] * 4 + [to(1, k) for k in range(6)]
            cases.append({**base, "frames": [_valid(LINE, x) for x in "abc"] + [_fr(b"\xe9\n", "parse"), _valid(LINE, "late")],
                          "cuts": [2, 2, 2, 2, 50], "delays": [0, 0, 0, 0, 5], "end": "eof", "end_delay": 1, "coalesce": True,
                          "gens": [steps] if layer == "low" else [steps[:3], steps[3:]]})
            # 4. the handler closes the client after a timeout has expired (TLS closing handshake with the peer), and the
            #    generator finishing while the peer is still there
            cases.append({**base, "frames": [_valid(LINE, "x"), _valid(LINE, "y"), _valid(LINE, "z")], "cuts": [2], "delays": [0, 3, 3],
                          "end": "eof", "end_delay": 2, "rec_cuts": [0, 2], "rec_early": [True],
                          "gens": [[to(1, 1), to(1, 2), to(1, 3), to(1, 4, resp=True, close=True), plain]]})
    return cases


def _occlose_corpus() -> list[dict]:
    """the handler closes the client inside on_connection() (coroutine: itself / through a helper task; generator: after the
    login request, then returns) or at the last step of a handle() generator that returns at once - nothing / three requests
    pipelined behind: no generator is started after the close, nothing is delivered, on_disconnection, connection closed"""
    ok = sers.enc_val("ok")
    plain = {"sleep": 0, "timeout": None, "resp": False, "close": False}
    cases = []
    for path in ("copy", "buffered"):
        for layer in ("high", "tcp"):
            for k in (0, 3):
                base = {"spec": LINE, "path": path, "layer": layer, "conv": False, "cuts": [1 << 20], "delays": [0],
                        "end": "eof", "end_delay": 2, "filter": True, "max_recv": 16384, "resp_packet": ok}
                for by in ({}, {"by": "helper"}):
                    fr = [_valid(LINE, x) for x in "abc"[:k]]
                    cases.append({**base, "frames": fr, "onconn": None,
                                  "oc_coro": {"sleep": 0, "resp": True, "close": True, **by}, "gens": [[plain, plain], [plain]]})
                    cases.append({**base, "frames": [_valid(LINE, "login")] + fr, "after_close": "data",
                                  "onconn": [{**plain, "resp": True, "close": True, **by}], "gens": [[plain, plain], [plain]]})
                    cases.append({**base, "frames": [_valid(LINE, "bye")] + fr, "onconn": None,
                                  "gens": [[{**plain, "close": True, **by}], [plain, plain]]})
                cases.append({**base, "frames": [_valid(LINE, x) for x in "abc"[:k]], "onconn": None, "after_close": "eof",
                              "oc_coro": {"sleep": 1, "resp": False, "close": True, "after": 1}, "gens": [[plain]]})
    return cases


def corpus() -> list[dict]:
    U = cr.UNIT
    cases = []
    ok = sers.enc_val("ok")
    for layer in ("low", "high"):
        for path in ("copy", "buffered"):
            # bad frame between good ones, cut inside the CRLF separator, generator restart in the middle of a read
            cases.append({"spec": CRLF, "path": path, "layer": layer, "conv": False,
                          "frames": [_valid(CRLF, "ab"), _fr(b"\xe9\r\n", "parse"), _valid(CRLF, "c\r"), _valid(CRLF, "d")],
                          "cuts": [3, 1, 2, 1, 1, 50], "delays": [1], "end": "eof", "end_delay": 1, "filter": True, "max_recv": 4,
                          "onconn": None,
                          "gens": [[{"sleep": 0, "timeout": None, "resp": True, "close": False}],
                                   [{"sleep": 2, "timeout": None, "resp": False, "close": False},
                                    {"sleep": 0, "timeout": 0, "resp": False, "close": False}],
                                   [{"sleep": 0, "timeout": U + 1, "resp": True, "close": False},
                                    {"sleep": 0, "timeout": 2 * U + 2, "resp": False, "close": False},
                                    {"sleep": 0, "timeout": None, "resp": False, "close": False}]],
                          "resp_packet": ok})
            # several requests in one read, then timeouts while nothing arrives, then the handler closes the client
            cases.append({"spec": LINE, "path": path, "layer": layer, "conv": False,
                          "frames": [_valid(LINE, "a"), _valid(LINE, "b"), _valid(LINE, "c"), _valid(LINE, "d")],
                          "cuts": [6, 2], "delays": [0, 7], "end": "eof", "end_delay": 0, "filter": True, "max_recv": 16384,
                          "onconn": ([{"sleep": 0, "timeout": None, "resp": False, "close": False}] if layer == "high" else None),
                          "gens": [[{"sleep": 0, "timeout": 4, "resp": False, "close": False},
                                    {"sleep": 0, "timeout": 0, "resp": False, "close": False},
                                    {"sleep": 1, "timeout": 0, "resp": False, "close": False},
                                    {"sleep": 0, "timeout": U + 8, "resp": False, "close": False},
                                    {"sleep": 0, "timeout": None, "resp": True, "close": True},
                                    {"sleep": 0, "timeout": None, "resp": False, "close": False}]],
                          "resp_packet": ok})
    # unfiltered connection reset reaches the handler as an exception, after every request
    cases.append({"spec": LINE, "path": "copy", "layer": "low", "conv": False,
                  "frames": [_valid(LINE, "x"), _valid(LINE, "y")], "cuts": [1], "delays": [1], "end": "reset",
                  "end_delay": 2, "filter": False, "max_recv": 2, "onconn": None,
                  "gens": [[{"sleep": 0, "timeout": None, "resp": False, "close": False}] * 4], "resp_packet": ok})
    # the handler closes the client at request #0 (preamble of the very first generator, then a yield): bare low-level
    # generator, first handle() generator, on_connection generator; peer silent / one request pipelined / several;
    # every after-close behaviour of the transport; both receive paths.  Expected: generator closed, nothing delivered.
    plain = {"sleep": 0, "timeout": None, "resp": False, "close": False}
    pre = {**plain, "pre_close": True}
    for path in ("copy", "buffered"):
        for shape in ("low", "handle", "onconn", "tcp-handle", "tcp-onconn"):
            for k, ac in ((0, "ebadf"), (1, "ebadf"), (1, "reset"), (3, "data"), (1, "aborted"), (1, "eof")):
                cases.append({"spec": LINE, "path": path, "layer": "low" if shape == "low" else ("tcp" if shape.startswith("tcp") else "high"),
                              "conv": False, "frames": [_valid(LINE, x) for x in "abc"[:k]], "cuts": [1 << 20], "delays": [0],
                              "end": "eof" if ac != "data" else "reset", "end_delay": 2, "filter": ac in ("aborted", "eof"),
                              "max_recv": 16384, "after_close": ac,
                              "onconn": [pre, plain] if shape.endswith("onconn") else None,
                              "gens": [[plain, plain]] if shape.endswith("onconn") else [[pre, plain], [plain]],
                              "resp_packet": ok})
    # close before request #1 / #2 (preamble of the 2nd generator, middle of a generator), requests pipelined
    for path in ("copy", "buffered"):
        for layer in ("high", "tcp"):
            cases.append({"spec": LINE, "path": path, "layer": layer, "conv": False,
                          "frames": [_valid(LINE, x) for x in "abcd"], "cuts": [1 << 20], "delays": [0], "end": "eof",
                          "end_delay": 1, "filter": False, "max_recv": 16384, "after_close": "data", "onconn": None,
                          "gens": [[plain], [pre, plain]], "resp_packet": ok})
        cases.append({"spec": LINE, "path": path, "layer": "low", "conv": False,
                      "frames": [_valid(LINE, x) for x in "abcd"], "cuts": [1 << 20], "delays": [0], "end": "eof",
                      "end_delay": 1, "filter": False, "max_recv": 16384, "after_close": "reset", "onconn": None,
                      "gens": [[plain, plain, pre, plain]], "resp_packet": ok})
    # polling handler (`yield 0`, and a timeout of one subtick) over requests that came in ONE read, a malformed one among
    # them: each of them is delivered (parse error at its position), TimeoutError only once the buffer holds nothing complete
    for path in ("copy", "buffered"):
        for layer in ("low", "high", "tcp"):
            for per_gen in (1, 2, 8):
                for to in (0, 1):
                    poll = {"sleep": 0, "timeout": to, "resp": False, "close": False}
                    steps = [plain] + [poll] * 6
                    gens = [steps] if layer == "low" else [steps[i:i + per_gen] if i else [plain] + [poll] * (per_gen - 1)
                                                           for i in range(0, 8, per_gen)]
                    if layer == "low" and per_gen != 8:
                        continue
                    cases.append({"spec": LINE, "path": path, "layer": layer, "conv": False,
                                  "frames": [_valid(LINE, "a"), _valid(LINE, "b"), _fr(b"\xe9\n", "parse"), _valid(LINE, "d"),
                                             _valid(LINE, "e"), _fr(b"f", "none")],
                                  "cuts": [1 << 20] if per_gen != 2 else [3, 1 << 20], "delays": [0], "end": "eof", "end_delay": 3,
                                  "filter": True, "max_recv": 16384, "onconn": None, "gens": gens, "resp_packet": ok})
    # the connection is the library's AsyncStapledStreamTransport (two half transports, the write half's aclose() has a
    # checkpoint as every I/O backed transport's has): however the session ends — peer EOF, filtered / unfiltered reset,
    # OSError, the generator finishing, the handler closing the client (graceful close of both halves), a close before
    # request #0 — BOTH halves must be closed and transport.is_closing() true when the connection task has ended
    for path in ("copy", "buffered"):
        for layer in ("low", "high", "tcp"):
            base = {"spec": LINE, "path": path, "layer": layer, "conv": False, "conn": "stapled",
                    "frames": [_valid(LINE, "first"), _valid(LINE, "second")], "cuts": [3, 6, 1 << 20], "delays": [0, 1],
                    "end_delay": 1, "max_recv": 64, "onconn": None, "resp_packet": ok}
            resp = {**plain, "resp": True}
            for end, filt in (("eof", True), ("reset", True), ("reset", False), ("oserror", True)):
                for wclose, rclose in ((1, 0), (2, 1), (0, 0)):
                    cases.append({**base, "end": end, "filter": filt, "wclose": wclose, "rclose": rclose,
                                  "gens": [[resp, resp, plain, plain]]})
            # the generator finishes after one request while the peer is still there (low: that ends the session)
            cases.append({**base, "end": "eof", "filter": True, "wclose": 1, "rclose": 0, "gens": [[resp], [resp, plain]]})
            # control: the handler closes the client itself at the second request / before request #0
            cases.append({**base, "end": "eof", "filter": True, "wclose": 1, "rclose": 1,
                          "gens": [[resp, {**resp, "close": True}, plain]]})
            cases.append({**base, "end": "eof", "filter": True, "wclose": 2, "rclose": 0, "after_close": "data",
                          "gens": [[pre, plain], [plain]]})
    cases.extend(_occlose_corpus())
    # real loopback TCP: the client closed by another task / another client's handler / the generator / the peer while the
    # connection task is parked in the transport receive or the generator is busy (vlib/c15_loop.py)
    from vlib import c15_loop
    cases.extend(c15_loop.corpus())
    # real loopback TCP driven turn by turn on a virtual clock: request bytes readable in the same loop iteration as the
    # deadline of the yielded timeout, just before it, just after it, whole and in pieces (vlib/c15_tie.py)
    from vlib import c15_tie
    cases.extend(c15_tie.corpus())
    # the in-memory layers over a TLS connection (the library's AsyncTLSListener / AsyncTLSStreamTransport over an in-memory
    # wire, a real ssl.SSLObject peer): yielded timeouts that expire while the server waits for bytes of the wire
    cases.extend(_tls_corpus())
    return cases


def generate(rng, tier: str, boost: int):
    n = (5000 if tier == "quick" else 25000) * boost
    layers = ("low", "high", "high", "tcp")
    from vlib import c15_loop, c15_tie
    sub = rng.getrandbits(32)
    lrng = core.sub_rng(sub, "c15-loop")
    trng = core.sub_rng(sub, "c15-tie")
    xrng = core.sub_rng(sub, "c15-tls")
    orng = core.sub_rng(sub, "c15-occlose")
    for i in range(n):
        c = gen_case(rng, layers)
        if c is not None:
            yield c
        if i % 20 == 0:
            yield c15_loop.gen_case(lrng)       # 250 (quick) / 1250 loopback sessions, spread over the run
        if i % 10 == 5:
            yield c15_tie.gen_case(trng)        # 500 (quick) / 2500 deadline-tie sessions
        if i % 12 == 7:
            c = gen_occlose_case(orng)          # 417 (quick) / 2083 sessions closing the client in on_connection() / at a restart
            if c is not None:
                yield c
        if i % 8 == 3:
            c = gen_tls_case(xrng)              # 625 (quick) / 3125 sessions over a TLS connection (own random stream)
            if c is not None:
                yield c


def extra_coverage(stats) -> dict:
    return {"layers": "low = AsyncStreamServer alone; high = + build_lowlevel_stream_server_handler; "
                      "the Lean model is compared on every case whose framer has a model (separator / fixed-size); "
                      "json / other framers run against the oracle only"}
