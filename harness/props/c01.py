"""
C01 — Stream round-trip: packets survive any chunking of the byte stream.

real run : real serializer + StreamDataProducer -> byte stream -> cut -> real StreamDataConsumer /
           BufferedStreamDataConsumer (arbitrary fill sizes) -> delivered packets
model run: the same chunks / fills through the Lean consumer+framer models (endriver); frames are decoded
           with the real one-shot codec (codec = parameter of the theorems)
oracle   : delivered == sent, in order, once each; no error; nothing retained at the end; the delivered packets are retained
           by the harness as the application would keep them and still have the same value once the whole stream has been
           received (a packet must not alias the receive buffer)
session 4: every constructor option of every serializer is a spec key drawn from its legal domain (sers.vary: encodings x error
           handlers, JSON encoder / decoder knobs, struct formats and byte orders, named-tuple layouts with text and bytes fields,
           keyed checksums, compression levels, pickle protocols, any one-shot serializer inside the wrappers, composites whose
           halves differ); valid packet = what the sender accepts (sers.valid_packet), generated so that it NEEDS the option (lone
           surrogates, interior NUL bytes, text ending with a lone CR / LF); corpus `_session4_corpus` (docs/SER-STRENGTHENING.md 6-10)
round 5  : case kind `ep` (vlib/c01_endpoints.py, docs/C01.md): the packets are received through recv_packet() of the REAL endpoints
           (blocking StreamEndpoint / StreamReceiverEndpoint, AsyncStreamEndpoint / AsyncStreamReceiverEndpoint over in-memory transports,
           several packets per read, max_recv_size variation), sent through every generate_chunks() / send_packet(); falsy packet values
           (None 0 False "" b"" [] {}); converter objects drawn from a family (plain, falsy by __len__ / __bool__, StapledPacketConverter,
           rejecting converters, falsy business objects), also through DatagramProtocol
"""
from __future__ import annotations

from typing import Any

from vlib import core, sers, streamdrive as sd
from vlib import jraw  # ---- raw JSON framer ----

ID = "C01"
CLAIMED = True
TITLE = "Stream round-trip under any chunking"
REQUIRED_THEOREMS = ["C01_sep_copy_roundtrip", "C01_sep_buffered_roundtrip", "C01_sep_buffered_room",
                     "C01_fixed_copy_roundtrip", "C01_fixed_buffered_roundtrip", "C01_sep_producer_roundtrip",
                     "C01_jraw_roundtrip"]  # ---- raw JSON framer ----
LEVEL_TEXT = (
    "Machine-checked proof (Lean 4) that the modelled consumers and framers deliver exactly the sent frames for "
    "every packet list and every chunking / fill-size sequence, plus a differential correspondence check of the "
    "model against the real consumers, producers and serializers on generated cases, plus a direct round-trip oracle."
)
LEVEL_NOTE = (
    "Trusted: Lean kernel; axioms propext, Quot.sound, Classical.choice only; the hand-written model is tied to the "
    "code by the correspondence check only (sampled); payload codecs (str, json, struct, base64, zlib, bz2, pickle) "
    "are parameters of the theorems and exercised, not modelled; raw JSON: model JRaw + C01_jraw_roundtrip (docs/JRAW.md); "
    "file-based / compressor framers: see evidence."
)
TECHNIQUE = "Lean 4 theorems (induction over chunk lists, refinement to a byte-level spec) + model/code differential correspondence + round-trip oracle"
TRUSTED_BASE = [
    "Lean 4.33.0 kernel; axioms allowed: propext, Classical.choice, Quot.sound",
    "hand-written models EasyNet/Model/{Bytes,Framers,Consumer}.lean tied to lowlevel/_stream.py, serializers/tools.py, "
    "serializers/base_stream.py by this correspondence check (sampled, not proved)",
    "payload codecs (str.encode/decode, json, struct, base64, zlib, bz2, pickle) are parameters: assumed to round-trip",
    "harness: chunk cutter, canonicaliser, endriver line parser",
]
ASSUMPTIONS = [
    "valid packet = one the producer accepts and that encodes to a non-empty frame whose first separator "
    "occurrence is the appended one (ValidPayload)",
    "frames within the accepted zone of the limit (C07 table)",
]
RULE = (
    "case = serializer config (incl. debug=True variants, packets that keep their deserialize() argument, 1..4-byte separators, "
    "composites, file toys with every expected_load_error set) x packet list x cut sizes (copy path) or fill sizes + buffer hint "
    "(buffered path) x converter; kind ep: receive entry point (consumers, recv_packet() of the blocking / asyncio stream endpoints, "
    "DatagramProtocol) x send path x converter object family x falsy packet values x reads (k frames per read, cut sizes) x max_recv_size; "
    "non-trivial = at least one cut strictly inside a frame, or several frames delivered from one read; distinct by full case digest"
)

_aux: dict[str, Any] = {}


def _stream(case: dict) -> tuple[list[Any], list[bytes]]:
    packets = [sers.dec_val(v) for v in case["packets"]]
    frames = sd.produce(case["spec"], packets, case.get("conv", False))
    return packets, frames


def _run_producer(case: dict) -> list[str]:
    ser = sers.build(case["spec"])
    out = []
    if case["spec"]["k"] == "json":  # ---- raw JSON framer ---- producer: encoded text (real one-shot) -> emitted chunk
        texts = []
        for v in case["datas"]:
            texts.append(ser.serialize(sers.dec_val(v)))
            out.append("chunk " + core.hexs(b"".join(ser.incremental_serialize(sers.dec_val(v)))))
        _aux[core.case_digest(case)] = {"texts": texts}
        return out
    for h in case["datas"]:
        try:
            chunks = list(ser.incremental_serialize(bytes.fromhex(h)))
        except ValueError:
            out.append("refused")
            continue
        out.append("nothing" if not chunks else "chunk " + core.hexs(b"".join(chunks)))
    return out


def run_real(case: dict) -> list[str]:
    if case.get("kind") == "producer":
        return _run_producer(case)
    packets, frames = _stream(case)
    # a sentinel frame (the last packet once more) follows the stream: bytes wrongly retained after the
    # last packet would corrupt it ("nothing is left over", observed through public behaviour only)
    frames = frames + [frames[-1]]
    stream = b"".join(frames)
    proto = sd.make_protocol(case["spec"], case["path"], case.get("conv", False))
    lines: list[str] = []
    aux: dict[str, Any] = {"frames": [len(f) for f in frames]}
    if case["path"] == "copy":
        chunks = sd.cut(stream, case["cuts"])
        aux["chunks"] = chunks
        sd.drive_copy(proto, chunks, lines)
    else:
        actual: list[bytes] = []
        sd.drive_buffered(proto, stream, case["cuts"], case["hint"], lines, actual)
        aux["chunks"] = actual
    _aux[core.case_digest(case)] = aux
    return lines


def model_input(case: dict, real: list[str]):
    if case.get("kind") == "producer" and case["spec"]["k"] == "json":  # ---- raw JSON framer ----
        aux = _aux.get(core.case_digest(case))
        if aux is None:
            return None
        sers.MODEL_RUNS["jrawprod"] = sers.MODEL_RUNS.get("jrawprod", 0) + 1
        return "jrawprod", [f"ser {core.hexs(t)}" for t in aux["texts"]]
    if case.get("kind") == "producer":
        return f"prod {case['spec']['sep']}", [f"ser {h or '-'}" for h in case["datas"]]
    if any(ln.startswith("mutated ") for ln in real):
        return None
    if case.get("bigframes") and case["spec"]["k"] not in sers.FILE_TOYS:
        # the Lean separator framer models are quadratic in the frame length (5 s for this corpus' 40 KB frames; C06 and C07 put
        # sampled frames of that size through them): here only the file toys go through their (generic, linear) model; the
        # oracle judges all of them
        return None
    head = sers.model_head(case["spec"], case["path"], case.get("hint", 0))
    if head is None:
        return None
    aux = _aux.get(core.case_digest(case))
    if aux is None:
        return None
    op = "feed" if case["path"] == "copy" else "fill"
    return head, [f"{op} {core.hexs(c)}" for c in aux["chunks"]]


def model_post(case: dict, lines: list[str]) -> list[str]:
    if case.get("kind") == "producer":
        return lines
    lines = [ln for ln in lines if not ln.startswith("held ")]
    return sd.codec_items(case["spec"], lines, case.get("conv", False))


def oracle(case: dict, real: list[str]) -> str | None:
    if case.get("kind") == "producer" and case["spec"]["k"] == "json":  # ---- raw JSON framer ----
        # the emitted chunk is the text, plus a newline iff the text does not start with { [ "
        import json as _json
        for v, ln in zip(case["datas"], real):
            if not ln.startswith("chunk "):
                return ln
            b = bytes.fromhex(ln.split()[1])
            if _json.loads(b) != sers.dec_val(v) or (b[:1] not in (b"{", b"[", b'"')) != b.endswith(b"\n"):
                return f"producer emitted {b!r} for {sers.dec_val(v)!r}"
        return None
    if case.get("kind") == "producer":
        # whatever the producer emits must be cut out by the receiver as exactly one frame holding the stripped data
        sep = bytes.fromhex(case["spec"]["sep"])
        for h, ln in zip(case["datas"], real):
            if ln.startswith("chunk "):
                b = bytes.fromhex(ln.split()[1])
                if b.find(sep) != len(b) - len(sep):
                    return f"producer accepted {h}: emitted {b.hex()} whose first separator is not the appended one"
            elif ln.startswith("harness-exc"):
                return ln
        return None
    if "crashed" in real:
        return "RuntimeError escaped from the consumer (write buffer exhausted)"
    why = sd.mutated(real)
    if why:
        return why
    packets = [sers.dec_val(v) for v in case["packets"]]
    exp = []
    for p in packets + packets[-1:]:
        e = sers.expected_received(case["spec"], p)
        exp.append(sd.pkt_line(sd.Wrapped(e) if case.get("conv") else e))
    got = [ln for ln in real if ln.startswith(("pkt ", "err ", "harness-exc"))]
    if got != exp:
        return f"delivered {got[:6]}… != sent {exp[:6]}…"
    tail = [ln for ln in real if ln.startswith(("buf ", "held "))]
    if tail and tail[-1].split()[1] != "-":
        return f"bytes left over after the last packet: {tail[-1]}"
    return None


def nontrivial(case: dict, real: list[str]) -> str | None:
    if case.get("kind") == "producer":
        return "producer/" + "+".join(sorted({ln.split()[0] for ln in real}))
    aux = _aux.get(core.case_digest(case))
    if not aux:
        return None
    bounds, acc = set(), 0
    for n in aux["frames"]:
        acc += n
        bounds.add(acc)
    pos, inside, multi = 0, False, False
    for c in aux["chunks"]:
        start = pos
        pos += len(c)
        if pos not in bounds and pos != 0:
            inside = True
        if sum(1 for b in bounds if start < b <= pos) >= 2:
            multi = True
    if not (inside or multi):
        return None
    return f"{case['spec']['k']}/{case['path']}/" + ("cut-inside" if inside else "multi")


def shrink(case: dict):
    if case.get("kind") == "producer":
        for i in range(len(case["datas"])):
            if len(case["datas"]) > 1:
                yield {**case, "datas": case["datas"][:i] + case["datas"][i + 1:]}
        return
    n = len(case["packets"])
    for i in range(n):
        if n > 1:
            yield {**case, "packets": case["packets"][:i] + case["packets"][i + 1:]}
    cuts = case["cuts"]
    if len(cuts) > 1:
        for i in range(len(cuts)):
            yield {**case, "cuts": cuts[:i] + cuts[i + 1:]}
    for i, c in enumerate(cuts):
        if c > 1:
            yield {**case, "cuts": cuts[:i] + [c // 2] + cuts[i + 1:]}
    if case.get("conv"):
        yield {**case, "conv": False}


def known_key(case: dict, real: list[str], why: str) -> str:
    if case.get("kind") == "producer":
        return "producer"
    return f"ser={case['spec']['k']},path={case['path']}"


def corpus() -> list[dict]:
    crlf = {"k": "line", "newline": "CRLF", "keep_end": False, "encoding": "ascii", "limit": 16}
    cases = []
    for path in ("copy", "buffered"):
        # cut inside the 2-byte separator, and 1-byte drip feed
        cases.append({"spec": crlf, "path": path, "packets": [sers.enc_val("ab"), sers.enc_val("c\r"), sers.enc_val("d")],
                      "cuts": [3, 1, 2, 1, 1, 50], "hint": 4, "conv": False})
        cases.append({"spec": crlf, "path": path, "packets": [sers.enc_val("x" * 13), sers.enc_val("y")],
                      "cuts": [1], "hint": 1, "conv": False})
        cases.append({"spec": {"k": "autosep", "sep": "616162", "limit": 8, "check": True}, "path": path,
                      "packets": [sers.enc_val(b"ba"), sers.enc_val(b"a"), sers.enc_val(b"bbbb")],
                      "cuts": [2, 1], "hint": 3, "conv": True})
        cases.append({"spec": {"k": "fixed", "size": 5}, "path": path,
                      "packets": [sers.enc_val(b"12345"), sers.enc_val(b"abcde")], "cuts": [3, 3, 1], "hint": 2, "conv": False})
    cases.append({"spec": {"k": "json", "use_lines": False, "limit": 64}, "path": "copy",
                  "packets": [sers.enc_val({"a": "}\""}), sers.enc_val(12), sers.enc_val([1, [2]])], "cuts": [1], "hint": 1, "conv": False})
    cases += _session3_corpus()
    cases += _session4_corpus()
    # ---- raw JSON framer ---- backslash runs before quotes cut at every position; texts exactly at the limit
    pk = [sers.enc_val("a\\\\\"}]\\"), sers.enc_val([]), sers.enc_val(None), sers.enc_val({"\\": "\"", "k": [[], {}]}), sers.enc_val(-12.5)]
    for i in range(1, 55):
        cases.append({"spec": {"k": "json", "use_lines": False, "limit": 23}, "path": "copy", "packets": pk, "cuts": [i, 100], "hint": 1, "conv": False})
    # ---- end raw JSON framer ----
    return cases


def _session3_corpus() -> list[dict]:
    """packets that keep the object handed to deserialize() (both base classes, both paths, several packets per read and drip
    feed); terminators of 3 and 4 distinct bytes cut at every offset; CRLF packets ending with a lone CR / LF; composites"""
    ev = sers.enc_val
    out = []
    for path in ("copy", "buffered"):
        for hold in ("arg", "text"):
            for hint, cuts in ((1, [9, 2, 1]), (64, [9, 2, 1]), (3, [1]), (16384, [100])):
                out.append({"spec": {"k": "fixed", "size": 4, "hold": hold}, "path": path,
                            "packets": [ev(b"pkt0"), ev(b"pkt1"), ev(b"pkt2")], "cuts": cuts, "hint": hint, "conv": False})
            out.append({"spec": {"k": "autosep", "sep": "3c7c3e", "limit": 16, "check": True, "hold": hold}, "path": path,
                        "packets": [ev(b"ab"), ev(b"c<"), ev(b"d|"), ev(b"e")], "cuts": [4, 1, 2, 7], "hint": 4, "conv": hold == "arg"})
        for sephex in ("3c7c3e", "0d0a2e", "616261", "61626364", "0d0a0d0a"):
            sep = bytes.fromhex(sephex)
            first = b"first"
            for j in range(1, len(sep)):
                for tail in ([100], [1]):
                    out.append({"spec": {"k": "autosep", "sep": sephex, "limit": 64, "check": True}, "path": path,
                                "packets": [ev(first), ev(b"second"), ev(b"x")], "cuts": [len(first) + j] + tail, "hint": 8, "conv": False})
        for nl in ("CRLF", "CR", "LF"):
            pk = ["abc\r", "abc\n", "\r", "x\n\r", "y"] if nl == "CRLF" else ["abc\n" if nl == "CR" else "abc\r", "z"]
            for keep in (False, True):
                sp = {"k": "line", "newline": nl, "keep_end": keep, "encoding": "ascii", "limit": 16, "debug": keep}
                e = sers.NEWLINES[nl].decode() if keep else ""
                for cuts in ([1], [5, 1, 2], [100]):
                    out.append({"spec": sp, "path": path, "packets": [ev(p + e) for p in pk], "cuts": cuts, "hint": 4, "conv": False})
    js = {"k": "json", "use_lines": True, "limit": 64, "debug": True}
    out.append({"spec": {"k": "stapled", "sent": js, "received": js}, "path": "copy",
                "packets": [ev({"a": [1, "}"]}), ev(7), ev("x")], "cuts": [3, 1], "hint": 1, "conv": True})
    for k in sers.FILE_TOYS:
        for e in ("exception", "tuple"):
            for path in ("copy", "buffered"):
                out.append({"spec": {"k": k, "limit": 32, "expected": e, "debug": e == "tuple"}, "path": path,
                            "packets": [ev(b"abcdef"), ev(b""), ev(b"gh")], "cuts": [3, 1, 4], "hint": 5, "conv": False})
    return out


def _session4_corpus() -> list[dict]:
    """constructor options: (a) the line serializer used through its ONE-SHOT interface inside every wrapper (base64 with 1..4-byte
    separators / keyed checksum, zlib, bz2, base64 of zlib): packets ending with PARTS of the newline sequence must come back
    unchanged; (b) every error handler x encoding of the text serializers with packets that NEED the handler (lone surrogates as
    surrogateescape / surrogatepass produce them) — line, JSON (ensure_ascii off), named-tuple struct text fields; (c) named-tuple
    struct fields: interior NUL bytes in text and in bytes fields, strip on/off, every byte order; struct formats with pad bytes,
    repeat counts, s / p / c / ? fields"""
    ev = sers.enc_val
    out: list[dict] = []

    def add(spec, packets, oneshot_text: bool = False):
        for path in (("copy", "buffered") if sers.is_buffered(spec) else ("copy",)):
            for cuts, hint in (([1], 1), ([3, 1, 7], 8), ([1000], 16384)):
                out.append({"spec": spec, "path": path, "packets": [ev(p) for p in packets], "cuts": cuts, "hint": hint, "conv": False})

    # (a)
    for nl, texts in (("CRLF", ["abc\r", "abc\n", "\r", "\n", "x\n\r", "a\rb", "\n\n\r", "y"]), ("CR", ["abc\n", "\n", "a\nb", "z"]),
                      ("LF", ["abc\r", "\r", "a\rb", "z"])):
        for dbg in (False, True):
            inner = {"k": "line", "newline": nl, "keep_end": False, "encoding": "ascii", "limit": 65536, "debug": dbg}
            add({"k": "b64", "inner": inner, "alphabet": "urlsafe", "checksum": dbg, "separator": "0d0a", "limit": 65536}, texts)
            add({"k": "b64", "inner": inner, "alphabet": "standard", "checksum": {"key": sers.B64_KEYS[0], "as": "str"},
                 "separator": "3c7c3e", "limit": 128, "debug": dbg}, texts)
            add({"k": "zlib", "inner": inner, "level": 1, "debug": dbg}, texts)
            add({"k": "bz2", "inner": inner, "level": 9}, texts)
        add({"k": "b64", "inner": {"k": "zlib", "inner": {"k": "line", "newline": nl, "limit": 64, "encoding": "utf-8", "errors": "strict"}},
             "alphabet": "urlsafe", "checksum": False, "separator": "0a", "limit": 65536}, texts)
    # (b)
    for enc, err, texts in (("ascii", "surrogateescape", ["caf\udce9", "\udcff\udc80", "plain"]),
                            ("utf-8", "surrogateescape", ["\udcff", "ok \udce9x", "é€"]),
                            ("utf-8", "surrogatepass", ["\ud800", "a\udfffb", "😀"]),
                            ("utf-16", "surrogatepass", ["\ud800x", "abc"]),
                            ("latin-1", "replace", ["é", "abc"]), ("cp1252", "ignore", ["€", "x"]),
                            ("utf-7", "strict", ["a+b", "é~\\"]), ("utf-8-sig", "strict", ["abc", "é"]),
                            ("idna", "strict", ["example.org", "bücher.example"]), ("punycode", "strict", ["bücher", "abc"])):
        for nl in ("LF", "CRLF"):
            add({"k": "line", "newline": nl, "keep_end": False, "encoding": enc, "errors": err, "limit": 64}, texts)
        if enc in sers.ENC_ASCII:
            add({"k": "line", "newline": "CRLF", "keep_end": True, "encoding": enc, "errors": err, "limit": 64}, [t + "\r\n" for t in texts])
            for ul in (True, False):
                add({"k": "json", "use_lines": ul, "limit": 256, "encoding": enc, "errors": err,
                     "enc": {"ensure_ascii": False, "allow_nan": True, "skipkeys": False, "check_circular": True}},
                    [{"k": t} for t in texts] + [[t] for t in texts] + texts)
        add({"k": "zlib", "inner": {"k": "json", "use_lines": True, "limit": 64, "encoding": enc, "errors": err}}, [{"k": t} for t in texts])
        if enc not in ("idna", "punycode", "utf-16", "utf-7", "utf-8-sig"):
            for strip in (True, False):
                for endian in ("", "<", "@"):
                    spec = {"k": "ntstruct", "fields": [["n", "h"], ["name", "12s"], ["tag", "c"], ["nick", "8s"]], "endian": endian,
                            "encoding": enc, "errors": err, "strip": strip}
                    nt = sers.nt_class(["n", "name", "tag", "nick"])
                    add(spec, [nt(i - 1, t, b"\0", "ab\0cd") for i, t in enumerate(texts) if len(t.encode(enc, err)) <= 8])
    # (c)
    nt = sers.nt_class(["ident", "address", "key"])
    for strip in (True, False):
        for endian in ("", "!", "<", ">", "=", "@"):
            add({"k": "ntstruct", "fields": [["ident", "I"], ["address", "4s"], ["key", "8s"]], "endian": endian, "encoding": None, "strip": strip},
                [nt(2, b"\x7f\x00\x00\x01", b"\x00k\x00\x00e\xffy!"), nt(0, b"\x00\x00\x00\x01", b"12345678"), nt(2 ** 32 - 1, b"abcd", b"\x00\x00\x00\x00\x00\x00\x00z")])
    nt = sers.nt_class(["name", "nickname", "age"])
    for enc in ("utf-8", "ascii", "latin-1"):
        add({"k": "ntstruct", "fields": [["name", "12s"], ["nickname", "8s"], ["age", "H"]], "endian": "", "encoding": enc, "errors": "strict", "strip": True},
            [nt("ab\0cd", "x", 1), nt("\0hidden", "\0\0y", 65535), nt("John", "", 20)])
    # (d) frames far above the default read size (16 KiB) under limits that hold them, small buffer hints: 16 KiB +- 1, 20000, 40000
    big = [ev("q" * 16383), ev("r" * 16384), ev("s" * 16385), ev("t" * 20000), ev("u" * 40000)]
    for spec, pk in (({"k": "line", "newline": "LF", "keep_end": False, "encoding": "ascii", "limit": 65536}, big),
                     ({"k": "line", "newline": "CRLF", "keep_end": False, "encoding": "utf-8", "errors": "replace", "limit": 40100}, big),
                     ({"k": "autosep", "sep": "3c7c3e", "limit": 41000, "check": True}, [ev(sers.dec_val(v).encode()) for v in big]),
                     ({"k": "b64", "inner": {"k": "line", "newline": "LF", "limit": 65536, "encoding": "ascii"}, "alphabet": "urlsafe",
                       "checksum": True, "separator": "0d0a", "limit": 65536}, big[:4]),
                     ({"k": "filetoy", "limit": 65536, "hdr": 4}, [ev(sers.dec_val(v).encode()) for v in big[:4]])):
        for path, hint, cuts in (("buffered", 1024, [4096]), ("buffered", 65536, [16384, 1000]), ("copy", 1, [8192])):
            out.append({"spec": spec, "path": path, "packets": pk, "cuts": cuts, "hint": hint, "conv": False, "bigframes": True})
    for fmt, pk in ((">3H", (1, 65535, 0)), ("<2xHx", (513,)), ("=hQ", (-32768, 2 ** 64 - 1)), ("@bI", (-128, 7)), ("!4sB", (b"a\0\0b", 9)),
                    ("<5pH", (b"ab\0c", 2)), ("!c?", (b"\n", True)), ("!d", (0.1,)), ("<e", (-2.0,)), ("hh", (-1, 1)), ("@c3xi", (b"\0", -5))):
        add({"k": "struct", "format": fmt}, [pk, pk])
    return out


def generate(rng, tier: str, boost: int):
    for _ in range((300 if tier == "quick" else 6000) * boost):
        sephex = rng.choice(["0a", "0d0a", "7c7c", "616162", "6161", "616261", "3c7c3e", "61626364", "0d0a0d0a"])
        sep = bytes.fromhex(sephex)
        alphabet = bytes(set(sep)) + b"x"
        datas = []
        for _ in range(rng.randint(1, 6)):
            d = bytes(rng.choice(alphabet) for _ in range(rng.randint(0, 7)))
            if rng.random() < 0.3:
                d += sep * rng.randint(1, 2)
            datas.append(d.hex())
        yield {"kind": "producer", "spec": {"k": "autosep", "sep": sephex, "limit": 64, "check": True}, "datas": datas}
    n = (2500 if tier == "quick" else 60000) * boost
    for _ in range(n):
        spec = sers.gen_spec(rng, rich=True)
        buffered_ok = sers.is_buffered(spec)
        path = "buffered" if (buffered_ok and rng.random() < 0.5) else "copy"
        lim = sers.limit_of(spec) or 65536
        sep = sers.separator(spec)
        maxlen = 12
        if sep is not None:
            # stay inside the zone both paths accept: |payload| + |sep| < limit   (C07)
            maxlen = max(1, min(12, lim - len(sep) - 1 - (len(sep) if sers.keep_end(spec) else 0)))
        filetoy = sers.recv_spec(spec)["k"] in sers.FILE_TOYS
        if filetoy:
            maxlen = max(0, min(12, lim // 2 - 2))
        packets = [sers.gen_packet(rng, spec, maxlen) for _ in range(rng.randint(1, 6))]
        if sers.limit_of(spec) is not None and not filetoy:
            # byte length (not character count) decides: keep every produced frame strictly inside the limit
            frames = sd.produce(spec, packets)
            if any(len(f) >= lim for f in frames):
                continue
        mode = rng.random()
        if mode < 0.3:
            cuts = [1]
        elif mode < 0.5:
            cuts = [rng.randint(1, 4)]
        else:
            cuts = [rng.choice([0, 1, 1, 2, 3, 5, 8, 13, 40]) for _ in range(rng.randint(1, 12))]
            if all(c == 0 for c in cuts):
                cuts.append(1)
        if path == "buffered":
            cuts = [c for c in cuts if c > 0] or [1]
        hint = rng.choice([1, 2, 3, 8, 64, 16384])
        if filetoy:
            # generic wrapper: frame + one read must stay within the limit (C07 table)
            hint = min(hint, max(1, lim // 2))
            cuts = [min(c, max(1, lim // 2)) for c in cuts]
        yield {"spec": spec, "path": path, "packets": [sers.enc_val(p) for p in packets], "cuts": cuts,
               "hint": hint, "conv": rng.random() < 0.25}
    # ---- raw JSON framer ---- producer tie: Lean `JRaw.produce` vs the real incremental_serialize
    for _ in range((150 if tier == "quick" else 3000) * boost):
        yield {"kind": "producer", "spec": {"k": "json", "use_lines": False, "limit": 65536},
               "datas": [sers.enc_val(jraw.gen_value(rng)) for _ in range(rng.randint(1, 5))]}
    # ---- raw JSON framer ---- rich documents, limit in the band of the longest text, one cut at every position
    for _ in range((700 if tier == "quick" else 20000) * boost):
        packets = [jraw.gen_value(rng) for _ in range(rng.randint(1, 5))]
        frames = sd.produce({"k": "json", "use_lines": False, "limit": 65536}, packets)
        big = max(len(f) - (1 if f.endswith(b"\n") else 0) for f in frames)   # |text| (a plain value's newline is not counted)
        lim = max(big, rng.choice([big, big, big + 1, big + 5, 64, 65536]))
        total = sum(len(f) for f in frames) + len(frames[-1])
        r = rng.random()
        if r < 0.3:
            cuts = [1]
        elif r < 0.65:
            cuts = [rng.randint(1, max(1, total - 1)), total]
        else:
            cuts = [rng.choice([0, 1, 1, 2, 3, 5, 8, 13, 40]) for _ in range(rng.randint(1, 12))] + [1]
        yield {"spec": {"k": "json", "use_lines": False, "limit": lim}, "path": "copy", "packets": [sers.enc_val(p) for p in packets],
               "cuts": cuts, "hint": 1, "conv": rng.random() < 0.1}
    # ---- end raw JSON framer ----


def extra_coverage(stats) -> dict:
    return {"serializer_models": "separator framers (line, json lines, base64, AutoSeparated subclass) and fixed-size "
            "framers (struct, named-tuple struct, FixedSize subclass) are compared with the Lean model; raw JSON, "
            "file-based, zlib/bz2 wrappers are run against the oracle only in this check",
            # ---- raw JSON framer ----
            "raw_json": "raw JSON (use_lines=False) is compared with the Lean model JRaw (endriver `jraw <limit>`) on the copy path",
            "model_runs_by_framer": dict(sorted(sers.MODEL_RUNS.items())),
            "retained_packets": dict(sd.RETAINED)}


def after_batch() -> None:
    _aux.clear()


# ---- generic framers ----
# file-based / compressor framers (Lean model GenericFr): adds the case kind "generic" and gives the existing cases whose
# serializer is a file toy or a zlib/bz2 wrapper a model run (see vlib/genericfr.py, docs/GENERICFR.md)
from vlib import genericfr as _genericfr  # noqa: E402

_genericfr.install(globals(), "C01")
# ---- end generic framers ----

# ---- round 5: receive entry points of the real endpoints, converter family, falsy packet values ----
# adds the case kind "ep" (vlib/c01_endpoints.py): recv_packet() of the blocking and asyncio stream endpoints over in-memory
# transports, converter objects drawn from a family (plain, falsy, stapled, rejecting, falsy business objects), DatagramProtocol
from vlib import c01_endpoints as _c01_endpoints  # noqa: E402

_c01_endpoints.install(globals())
# ---- end round 5 ----
